#!/usr/bin/env python3
"""Print the sensitivity tables of DESIGN.md section 8 from /verif/seeded/*/meta.json and seeded/own_mutants.json."""
import json, glob, os
V = os.path.dirname(os.path.dirname(os.path.abspath(__file__)))
rows = []
# verdicts of the final harness (tools/seed_recheck.py) take precedence over those recorded at first evaluation
FINAL = {}
if os.path.exists(V + "/seeded/final_recheck.json"):
    FINAL = json.load(open(V + "/seeded/final_recheck.json"))
for f in sorted(glob.glob(V + "/seeded/*/meta.json")):
    m = json.load(open(f))
    for p_, r_ in FINAL.get(m["name"], {}).items():
        if isinstance(r_, dict) and "detected" in r_:
            old = m.setdefault("check_verdicts", {}).get(p_, {})
            m["check_verdicts"][p_] = {"detected": r_["detected"], "exit": 1 if r_["detected"] else 0,
                                       "signatures": r_.get("signatures") or (old.get("signatures", []) if r_["detected"] else [])}
    needs = " ".join(m.get("needs_to_manifest", "").split())
    if len(needs) > 330:
        needs = needs[:327] + "..."
    v = m.get("check_verdicts", {})
    ran = ", ".join("%s:%s" % (k, "caught" if x["detected"] else ("inconclusive" if x["exit"] == 2 else "silent")) for k, x in v.items())
    sigs = "; ".join(v.get(m["breaks_property"], {}).get("signatures", [])[:3])
    rows.append((m["name"], m["breaks_property"], needs, ran, sigs))
print("| Seeded change (sub-agent) | Breaks | What it needs to manifest (from the author's notes) | Checks run -> verdict | Signatures (target check) |")
print("|---|---|---|---|---|")
for r in rows:
    print("| `%s` | %s | %s | %s | `%s` |" % r)
p = V + "/seeded/own_mutants.json"
if os.path.exists(p):
    own = json.load(open(p))
    print()
    print("| Hand-written change | Property | Description | Existing suite | Checks run -> verdict |")
    print("|---|---|---|---|---|")
    for name, e in own.items():
        if "error" in e:
            continue
        v = e.get("check_verdicts", {})
        ran = ", ".join("%s:%s" % (k, "caught" if x["detected"] else ("inconclusive" if x["exit"] == 2 else "silent")) for k, x in v.items())
        print("| `%s` | %s | %s | %s | %s |" % (name, e["property"], e["description"], "passes" if e["existing_suite_passes"] else "catches it (not used)", ran or "—"))
