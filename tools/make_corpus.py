#!/usr/bin/env python3
"""Select regression cases from /verif/replays (written whenever a check found a violation: on the tree before the
repairs of section 7, and on trees with seeded changes applied) into /verif/corpus/<id>/: the smallest replay per
(property, signature), at most 60 per property. Corpus cases are re-executed first by every run of the property."""
import json, os, glob, re, hashlib, shutil
V = os.path.dirname(os.path.dirname(os.path.abspath(__file__)))
best = {}
for f in glob.glob(V + "/replays/*.json"):
    try:
        d = json.load(open(f))
    except Exception:
        continue
    if "case" not in d or "property" not in d:
        continue
    if d.get("build") == "release+shuttle":
        continue  # cases of the scheduler harness (harness/sched) have their own format and binary
    key = (d["property"], d.get("signature", ""))
    size = os.path.getsize(f)
    if key not in best or size < best[key][0]:
        best[key] = (size, f, d)
count = {}
for (prop, sig), (size, f, d) in sorted(best.items()):
    if size > 20000:
        continue
    count[prop] = count.get(prop, 0) + 1
    if count[prop] > 60:
        continue
    name = re.sub(r"[^A-Za-z0-9_.-]+", "_", sig)[:70] + "-" + hashlib.sha1(json.dumps(d["case"], sort_keys=True).encode()).hexdigest()[:8] + ".json"
    os.makedirs(os.path.join(V, "corpus", prop), exist_ok=True)
    out = {"property": prop, "signature": sig, "found_in_build": d.get("build"), "message": d.get("message", "")[:400], "case": d["case"]}
    json.dump(out, open(os.path.join(V, "corpus", prop, name), "w"), indent=1)
print({k: min(v, 60) for k, v in count.items()})
