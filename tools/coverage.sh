#!/bin/bash
# Auxiliary measurement (not a check, not registered in MANIFEST.json): which lines of /repo/src does the quick
# tier of all checks execute? Builds the harness with -C instrument-coverage on the nightly toolchain (llvm-tools
# are installed there), runs every property once, prints the library lines that were never executed.
#   tools/coverage.sh [seed]
# Takes a long time (the PRINT = true wrappers of C14 format every operation; about 50 minutes on 16 cores).
# Output: one "### file" block per source file with never-executed lines (panics, unreachable!, debug assertions
# and closing braces filtered out). Scratch data: harness/target_cov and harness/cov (both git-ignored).
set -e
V=$(cd "$(dirname "$0")/.." && pwd)
SEED=${1:-1}
B=$(dirname "$(rustup +nightly which rustc)")/../lib/rustlib/x86_64-unknown-linux-gnu/bin
cd "$V/harness"
mkdir -p "$V/harness/cov"
LLVM_PROFILE_FILE="$V/harness/cov/build-%p.profraw" RUSTFLAGS="-C instrument-coverage" CARGO_NET_OFFLINE=true cargo +nightly build --offline --release -p props --bin vprop --target-dir "$V/harness/target_cov" 2>&1 | tail -1
rm -f "$V"/harness/cov/*.profraw
for p in C01 C02 C03 C04 C05 C06 C07 C08 C09 C10 C11 C12 C13 C14 C15 C16 C17 C18 C20; do
  LLVM_PROFILE_FILE="$V/harness/cov/$p-%p.profraw" VERIF_DIR="$V/harness/cov" "$V/harness/target_cov/release/vprop" $p --tier quick --seed "$SEED" --out "$V/harness/cov/$p.json" > /dev/null 2>&1 || echo "$p: exit $?"
done
"$B/llvm-profdata" merge -sparse "$V"/harness/cov/*.profraw -o "$V/harness/cov/all.profdata"
"$B/llvm-cov" report "$V/harness/target_cov/release/vprop" -instr-profile="$V/harness/cov/all.profdata" --sources /repo/src 2>/dev/null | awk 'NF >= 10 {printf "%-28s lines %6s missed %6s cover %s\n", $1, $8, $9, $10}' | tail -40
for f in $(cd /repo/src && find . -name "*.rs" | grep -v "fuzz/\|_tables.rs" | sort); do
  out=$("$B/llvm-cov" show "$V/harness/target_cov/release/vprop" -instr-profile="$V/harness/cov/all.profdata" --sources "/repo/src/$f" 2>/dev/null | grep -E "^ +[0-9]+\| +0\|" | grep -v "panic!\|unreachable\|debug_assert\|^ *[0-9]*| *0| *}$\|^ *[0-9]*| *0| *);$" || true)
  if [ -n "$out" ]; then echo "### $f"; echo "$out" | cut -c1-160; fi
done
