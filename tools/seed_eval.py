#!/usr/bin/env python3
"""Confirm and evaluate one seeded change.

  tools/seed_eval.py <worktree> <letter> <name> <target-property> [<more properties to run>...]

1. in the scratch worktree: the patch applies, the existing test suite passes with it, the demonstration
   fails with it and passes without it;
2. in /repo: apply the patch, run the listed checks (quick tier), undo the patch;
3. store patch.diff, the demonstration and meta.json under /verif/seeded/<name>/.
Nothing is ever committed to /repo.
"""
import json, os, subprocess, sys, shutil, time

V = os.path.dirname(os.path.dirname(os.path.abspath(__file__)))
TMPD = os.environ.get("SEED_TMPDIR", "/tmp/seed_tmp")
os.makedirs(TMPD, exist_ok=True)
ENV = dict(os.environ, CARGO_NET_OFFLINE="true", TMPDIR=TMPD)
# SEED_EVAL_NO_CHECKS=1: confirm and store only; the verdicts are filled in later by tools/seed_recheck.py --update-meta
NO_CHECKS = os.environ.get("SEED_EVAL_NO_CHECKS") == "1"


def sh(cmd, cwd, timeout=3600):
    r = subprocess.run(cmd, cwd=cwd, env=ENV, shell=True, stdout=subprocess.PIPE, stderr=subprocess.STDOUT, text=True, timeout=timeout)
    return r.returncode, r.stdout


def main():
    wt, letter, name, target = sys.argv[1:5]
    props = [target] + sys.argv[5:]
    patch = os.path.join(wt, "patch_%s.diff" % letter)
    demo = os.path.join(wt, "demo_%s.rs" % letter)
    meta_txt = os.path.join(wt, "meta_%s.txt" % letter)
    ran = []
    res = {"name": name, "breaks_property": target}
    sh("git checkout -- src && rm -f tests/demo_*.rs", wt)
    # demo passes without the change
    shutil.copy(demo, os.path.join(wt, "tests", "demo_%s.rs" % letter))
    flags = os.environ.get("SEED_DEMO_FLAGS", "")
    rc, out = sh("cargo test --offline %s --test demo_%s 2>&1 | tail -15" % (flags, letter), wt)
    ok_clean = "test result: ok" in out
    ran.append("unmodified tree: cargo test --offline %s --test demo_%s -> %s" % (flags, letter, "pass" if ok_clean else "FAIL"))
    rc, out = sh("git apply %s" % patch, wt)
    if rc != 0:
        print("patch does not apply:", out)
        return 2
    rc, out = sh("cargo test --offline %s --test demo_%s 2>&1 | tail -25" % (flags, letter), wt, timeout=900)
    demo_fails = "test result: ok" not in out
    ran.append("patched tree: cargo test --offline %s --test demo_%s -> %s" % (flags, letter, "fails (as required)" if demo_fails else "PASSES"))
    os.remove(os.path.join(wt, "tests", "demo_%s.rs" % letter))
    rc, out = sh("cargo test --offline 2>&1 | grep -E '^test result|FAILED|panicked|error' | head -30", wt)
    suite_ok = "FAILED" not in out and "error" not in out and out.count("test result: ok") >= 6
    npass = sum(int(l.split("ok. ")[1].split(" passed")[0]) for l in out.splitlines() if l.startswith("test result: ok"))
    ran.append("patched tree: cargo test --offline (existing suite) -> %s (%d tests passed)" % ("pass" if suite_ok else "FAIL", npass))
    sh("git checkout -- src", wt)
    res.update({"demo_passes_without_change": ok_clean, "demo_fails_with_change": demo_fails, "existing_suite_passes_with_change": suite_ok})
    print(json.dumps(res))
    if not (ok_clean and demo_fails and suite_ok):
        print("NOT CONFIRMED: discarded")
        for r in ran:
            print("  ", r)
        return 1
    if NO_CHECKS:
        d = os.path.join(V, "seeded", name)
        os.makedirs(d, exist_ok=True)
        shutil.copy(patch, os.path.join(d, "patch.diff"))
        shutil.copy(demo, os.path.join(d, "demo.rs"))
        needs = open(meta_txt).read() if os.path.exists(meta_txt) else ""
        verdicts = {p: {"exit": -1, "detected": False, "signatures": [], "pending": True} for p in props}
        meta = {"name": name, "breaks_property": target, "needs_to_manifest": needs, "confirmed": res, "what_was_run": ran, "check_verdicts": verdicts, "caught_by": []}
        json.dump(meta, open(os.path.join(d, "meta.json"), "w"), indent=1)
        print("stored (verdicts pending)", d)
        return 0
    # run the checks against /repo with the change applied
    rc, out = sh("git status --porcelain", "/repo")
    if out.strip():
        print("/repo is not clean:", out)
        return 2
    rc, out = sh("git apply %s" % patch, "/repo")
    if rc != 0:
        print("patch does not apply to /repo:", out)
        return 2
    verdicts = {}
    try:
        for p in props:
            t0 = time.time()
            rc, out = sh("./check %s --tier quick" % p, V, timeout=7200)
            sigs = sorted(set(l.split("signature=")[1].strip() for l in out.splitlines() if "signature=" in l))
            verdicts[p] = {"exit": rc, "detected": rc == 1, "signatures": sigs[:12], "wall_s": round(time.time() - t0, 1)}
            ran.append("git -C /repo apply patch.diff; ./check %s --tier quick -> exit %d" % (p, rc))
            print(p, "exit", rc, sigs[:6])
    finally:
        sh("git checkout -- .", "/repo")
    d = os.path.join(V, "seeded", name)
    os.makedirs(d, exist_ok=True)
    shutil.copy(patch, os.path.join(d, "patch.diff"))
    shutil.copy(demo, os.path.join(d, "demo.rs"))
    needs = open(meta_txt).read() if os.path.exists(meta_txt) else ""
    meta = {"name": name, "breaks_property": target, "needs_to_manifest": needs, "confirmed": res, "what_was_run": ran, "check_verdicts": verdicts,
            "caught_by": [p for p, v in verdicts.items() if v["detected"]]}
    json.dump(meta, open(os.path.join(d, "meta.json"), "w"), indent=1)
    print("stored", d, "caught_by", meta["caught_by"])
    return 0


if __name__ == "__main__":
    sys.exit(main())
