#!/usr/bin/env python3
"""Regenerate /verif/MANIFEST.json from the table below (kept in one place so that it stays valid)."""
import json, os
V = os.path.dirname(os.path.dirname(os.path.abspath(__file__)))

# id -> (technique, level text, level note, design ref)
P = {
 "C01": ("model-based PBT of writer histories (small-scope exhaustive + proptest with shrinking) against an independent bit model",
         "Exploration: every (buffer fill level, next operation) pair of every word size / endianness / backend is enumerated completely, plus seeded random histories with shrinking; every step is compared with an independent model of the canonical layout. It decides the property on that finite sub-space and samples the rest; it cannot establish absence for long histories.",
         "Trusted: the 60-line bit model (vcore::bits), validated against the repository's literal codeword vectors; D1 (n<=64, bounded unary).", "6/C01"),
 "C02": ("model-based PBT of reader histories (every buffer state x every next operation, plus proptest histories) against the bit model",
         "Exploration: every reachable buffer-fill state of every reader type is constructed and every next operation applied, on several data patterns, plus seeded random histories incl. clones; oracle is the bit model from the current position.",
         "Trusted: bit model; D2 (peek widths), D3 (no unary on zero-extended tail without a one), D8 (history ends at the first Err).", "6/C02"),
 "C03": ("round-trip PBT (library writer -> library reader) pinned to reference codecs, over all word sizes / readers / table options",
         "Exploration: streams of (code, parameter, value) items from a boundary-biased grid, written by the library at every bit offset and read back by every reader type; values, positions and the written bytes are compared with reference codecs.",
         "Trusted: reference codecs (vcore::refcodes) validated by self-test against the repository's literal vectors; D5/D6/D7 input domains.", "6/C03"),
 "C04": ("differential PBT: library encoders vs. reference encoders written from the published definitions (byte equality)",
         "Exploration: every value below 2^16 (2^10 quick) for small parameters plus the boundary grid, both endiannesses, all writer words, table options on/off; bytes must equal the reference codeword laid out by the bit model.",
         "Trusted: reference encoders from the prose definitions; zeta_k claimed only where (h+1)k <= 63 as the property states.", "6/C04"),
 "C05": ("exhaustive differential testing of every decoding-table index and encoding-table entry: tables on vs. off vs. reference",
         "Exploration, exhaustive over all 2^9+2^11+2^12 look-ahead patterns x endianness x buffer states: table-driven and bit-by-bit decoding must agree in value, length and position and with the reference decoder; readers restricted by the library's own diagnostics (measured).",
         "Trusted: reference decoder; D7 measured from the DANGER diagnostics of this tree.", "6/C05"),
 "C06": ("four-way agreement PBT: length function = write return = stream growth = bits consumed = reference length, at every length step",
         "Exploration over the full 64-bit domain at every point where the reference length steps, all small values, all length entry points (direct, _param, Codes, ConstCode, FuncCodeLen).",
         "Trusted: reference length formulas cross-checked against reference encoders.", "6/C06"),
 "C07": ("model-based PBT of reader histories with seeks and position queries; metamorphic relation seek(p) == fresh reader + skip(p)",
         "Exploration: every buffer state x every seek target x every next operation, plus random histories with code reads, byte reads, clones; bit_pos compared with the model after every step.",
         "Trusted: bit model + reference decoders; seek targets within the stream.", "6/C07"),
 "C08": ("model-based + differential PBT of copy_to/copy_from: optimised paths vs. generic chunked loop vs. bit model, all buffer states",
         "Exploration: all n in 0..several words x all source buffer states (incl. more than one word buffered after a look-ahead) x all destination fill levels x all reader/writer word pairings, with continuation operations (table-driven reads, further copies); run with and without the optimised paths compiled in.",
         "Trusted: bit model; bridges between object-safe wrappers are transparent forwarding.", "6/C08"),
 "C09": ("fault-position enumeration: valid streams truncated after every backend word, strict vs. zero-extended twin, against reference decoders",
         "Exploration: generated valid streams cut after every word; every item entirely inside the data must decode (whatever the table options), the first item needing a bit beyond the cut must return Err, never a value.",
         "Trusted: reference decoders; D8/D9/D15.", "6/C09"),
 "C10": ("exhaustive enumeration of code identifiers x dispatcher kinds, differential against direct calls and reference encoders",
         "Exploration, exhaustive over the 51 constants and every enumeration variant with parameters 0..=12 (and larger where accepted) x {Codes, ConstCode, FuncCode*, factory, stats wrapper} x {read, write, len} on a distinguishing value grid.",
         "Trusted: the identifier -> (family, parameter) table written by hand from the constant names.", "6/C10"),
 "C11": ("fault-schedule enumeration over harness-owned Read/Write objects (short transfers, Interrupted, hard errors) with a byte-exact oracle",
         "Exploration: all per-call byte limits and fault positions for short schedules, random longer ones, every word size; either all bytes of a word are transferred exactly once in order or the call reports an error.",
         "Trusted: the std::io contracts as documented; D15.", "6/C11"),
 "C12": ("model-based PBT of io::Read/io::Write views: every slice length x every bit offset x every word size against the bit model",
         "Exploration, exhaustive over lengths 0..=40 x offsets 0..=2W x endianness x writer words x readers, plus random longer slices interleaved with bit operations.",
         "Trusted: bit model.", "6/C12"),
 "C13": ("model-based PBT: array+cursor reference model, exhaustive short call sequences over small arrays plus random long ones",
         "Exploration: every call sequence up to a bounded length over an 8-letter alphabet on arrays of length 0..=3 for every word type and storage kind, plus random sequences; exact return values and cursor behaviour on errors.",
         "Trusted: the Vec+cursor model (30 lines).", "6/C13"),
 "C14": ("twin-execution PBT: same history with and without the wrapper; counters vs. model bit counts after every operation",
         "Exploration: histories over every method reachable through the wrappers (incl. omega, table-parameterised codes, copies, flush) on both endiannesses; values/bytes/positions identical to the bare stream and counters equal to the model position.",
         "Trusted: bit model + reference codecs.", "6/C14"),
 "C15": ("PBT of statistics against u128 reference totals, real encoding of best_code, split/merge algebra; thread interleavings explored under a deterministic scheduler (shuttle: DFS over all interleavings of small cases, seeded random/PCT for larger) plus an OS-thread contention stress",
         "Exploration: random multisets with boundary values, random splits and merges, observation through every interface; for the concurrent clause the library is rebuilt with the verification hook so that the wrapper's mutex is a scheduling point owned by the harness: every interleaving of small cases is enumerated by depth-first search, larger cases are sampled with seeded random and PCT schedulers; an OS-thread stress with 2..16 threads complements it.",
         "Trusted: reference lengths; shuttle's model of interleavings (scheduling points at lock/unlock/spawn/join), which is exact for data-race-free code; the hook only swaps the mutex type.", "6/C15"),
 "C16": ("exhaustive enumeration of variants x parameters and identifiers; grammar-generated malformed strings",
         "Exploration, exhaustive over every variant x parameter 0..=64 (+large), identifiers 0..=64 (+large), all pairs for ==; malformed strings from a grammar.",
         "Trusted: structural comparison of enum values; D12.", "6/C16"),
 "C17": ("exhaustive enumeration for 8/16/32-bit types, boundary + random for wider ones, against closed formulas in wider arithmetic",
         "Exploration, exhaustive for u8/u16/u32 (both directions), boundary neighbourhoods and random values for 64/128/size.",
         "Trusted: the closed formulas of the statement evaluated in i128/u128 (256-bit split for 128-bit types).", "6/C17"),
 "C18": ("differential PBT: io functions vs. bit-stream traits vs. reference VByte; exhaustive completeness over all strings of length <= 3",
         "Exploration: all values < 2^21, every length boundary, extremes, random; every terminated byte string of length <= 3 exhaustively for completeness and uniqueness.",
         "Trusted: reference VByte from the module documentation.", "6/C18"),
 "C19": ("differential testing across 8 builds (features x profiles): per-case observation digests must be identical; exhaustive dirty-bit sweep under `checks`",
         "Exploration: the quick generators of C01-C08, C10-C15, C18 and C20 with clean arguments replayed in every build and compared case by case; write_bits(v,n) for all n and every single stray bit position.",
         "Trusted: the release/default build is pinned to the model by the other checks.", "6/C19"),
 "C20": ("PBT of monotonicity and exact integer Kraft sums; synthetic step functions with evaluation-count budget for the change-point iterator",
         "Exploration: all values < 2^16/2^20 for every code x parameter, neighbourhoods of every power of two, random pairs; iterator on every library length function and on synthetic monotone step functions (incl. constant, steps beyond 2^63) with a deterministic non-termination detector.",
         "Trusted: exact integer arithmetic for Kraft sums; D14.", "6/C20"),
}

import subprocess
HOOK_COMMITS = [l.split()[0] for l in subprocess.run(["git", "-C", "/repo", "log", "--format=%H %s"], capture_output=True, text=True).stdout.splitlines() if l.split(" ", 1)[1].startswith("hook:")]
IMPLEMENTED = json.load(open(os.path.join(V, "tools", "implemented.json")))

checks = []
na = []
for pid in sorted(P):
    tech, text, note, ref = P[pid]
    if pid in IMPLEMENTED:
        checks.append({
            "property_id": pid,
            "quick_cmd": "./check %s --tier quick" % pid,
            "thorough_cmd": "./check %s --tier thorough" % pid,
            "evidence_file": "evidence/%s.json" % pid,
            "replay_cmd_template": "./check %s --replay {path}" % pid,
            "engine": "vprop",
            "level_claimed": {"category": "exploration", "text": text, "design_ref": "DESIGN.md section " + ref},
            "level_note": note,
            "technique": tech,
        })
    else:
        na.append({"property_id": pid, "reason": "designed (DESIGN.md section %s) but its check is not built yet in this round; not a claim that the technique cannot apply" % ref})

m = {
    "version": 1,
    "setup_cmd": "./check --setup",
    "hooks": {
        "guard": "dsi_bitstream_verif",
        "enable": "RUSTFLAGS='--cfg dsi_bitstream_verif' when building harness/sched (the C15 scheduler harness, done by ./check C15); every other check builds /repo as a path dependency with the guard off",
        "baseline_off_cmd": "cd /repo && cargo test --workspace --no-fail-fast --offline",
        "source_commits": HOOK_COMMITS,
        "add_only": True,
    },
    "engines": [{
        "name": "vprop",
        "path": "harness/",
        "serves_properties": sorted(IMPLEMENTED),
        "kind_free_text": "cargo workspace: vcore (bit model, reference codecs, PBT engine on proptest byte-string strategies, evidence) + props (object-safe adapters over every library reader/writer, one module per property); driver ./check builds the needed (profile, feature) configurations from /repo's working tree and merges per-build parts into evidence/<id>.json",
    }],
    "checks": checks,
    "not_applicable": na,
    "notes": "Seeds: VERIF_SEED (default 0). Tiers: quick = fixed work; thorough = deeper bounds. Exit 2 = inconclusive (harness build failure, watchdog), never a violation. Known findings: known_findings.json.",
}
json.dump(m, open(os.path.join(V, "MANIFEST.json"), "w"), indent=1)
print("claimed:", [c["property_id"] for c in checks])
