#!/usr/bin/env python3
"""Re-run the checks against every stored seeded change with the harness as it is now.

The verdicts in seeded/<name>/meta.json were recorded when each change was first evaluated; the harness has been
widened since. This tool re-applies every seeded/<name>/patch.diff to a *scratch copy* of /repo (one git worktree per
lane under /tmp/lanes, removed at the end), builds a scratch copy of the harness against it and runs the quick tier
of the checks listed in the change's meta.json (target first). /repo and /verif/harness are not touched.
Result: seeded/final_recheck.json  {name: {property: {"detected": bool, "build": ..., "signatures": [...]}}}.

  tools/seed_recheck.py [--update-meta] [lanes=3] [name-prefix ...]
  (--update-meta also writes the verdicts into seeded/<name>/meta.json: used for changes stored with SEED_EVAL_NO_CHECKS=1)
"""
import json, os, subprocess, sys, shutil, glob, threading, re

V = os.path.dirname(os.path.dirname(os.path.abspath(__file__)))
ROOT = "/tmp/lanes"
ENV = dict(os.environ, CARGO_NET_OFFLINE="true")
BUILDS = {
    "release": ("release", ""), "chk": ("chk", ""),
    "release+no_copy_impls": ("release", "no_copy_impls"), "chk+no_copy_impls": ("chk", "no_copy_impls"),
    "release+checks": ("release", "checks"), "chk+checks": ("chk", "checks"),
}


def sh(cmd, cwd=None, env=None, timeout=3600):
    r = subprocess.run(cmd, cwd=cwd, env=env or ENV, shell=True, stdout=subprocess.PIPE, stderr=subprocess.STDOUT, text=True, timeout=timeout)
    return r.returncode, r.stdout


def builds_for(prop):
    if prop == "C19":
        return ["release", "chk", "release+checks", "chk+checks", "release+no_copy_impls"]
    if prop == "C08":
        return ["release", "release+no_copy_impls", "chk"]
    return ["release", "chk"]


def lane(i, names, out, lock):
    L = os.path.join(ROOT, "L%d" % i)
    repo = os.path.join(L, "repo")
    har = os.path.join(L, "harness")
    vd = os.path.join(L, "v")
    os.makedirs(L, exist_ok=True)
    sh("git -C /repo worktree add --detach -q %s HEAD" % repo)
    shutil.copy("/repo/Cargo.lock", repo)
    sh("rsync -a --exclude /target --exclude /bin --exclude /target_cov --exclude /cov --exclude /sched/target %s/harness/ %s/" % (V, har))
    sh("sed -i 's#path = \"/repo\"#path = \"%s\"#' props/Cargo.toml" % repo, cwd=har)
    os.makedirs(vd, exist_ok=True)
    if not os.path.exists(os.path.join(vd, "corpus")):
        os.symlink(os.path.join(V, "corpus"), os.path.join(vd, "corpus"))
    shutil.copy(os.path.join(V, "known_findings.json"), vd)
    for name in names:
        d = os.path.join(V, "seeded", name)
        meta = json.load(open(os.path.join(d, "meta.json")))
        props = list(meta.get("check_verdicts", {}).keys()) or [meta["breaks_property"]]
        if meta["breaks_property"] in props:
            props.remove(meta["breaks_property"])
        props = [meta["breaks_property"]] + props
        sh("git checkout -q -- .", cwd=repo)
        rc, o = sh("git apply %s" % os.path.join(d, "patch.diff"), cwd=repo)
        res = {}
        if rc != 0:
            res = {"error": "patch does not apply: " + o[-300:]}
        else:
            built = {}
            for p in props:
                verdict = {"detected": False, "builds_run": []}
                for b in builds_for(p):
                    if b not in built:
                        prof, feats = BUILDS[b]
                        cmd = "cargo build --offline --profile %s -p props --bin vprop %s" % (prof, ("--features " + feats) if feats else "")
                        rc, o = sh(cmd, cwd=har)
                        if rc != 0:
                            built[b] = None
                            verdict.setdefault("build_failed", []).append(b)
                            continue
                        exe = os.path.join(har, "bin-%s" % b)
                        shutil.copy2(os.path.join(har, "target", prof, "vprop"), exe)
                        built[b] = exe
                    exe = built[b]
                    if exe is None:
                        continue
                    try:
                        r = subprocess.run([exe, p, "--tier", "quick", "--seed", "0", "--out", os.path.join(L, "out.json")], cwd=L, env=dict(ENV, VERIF_DIR=vd),
                                           stdout=subprocess.PIPE, stderr=subprocess.STDOUT, text=True, timeout=1500)
                        rc, o = r.returncode, r.stdout
                    except subprocess.TimeoutExpired:
                        rc, o = 2, "timeout"
                    verdict["builds_run"].append("%s:%d" % (b, rc))
                    if rc == 1:
                        verdict["detected"] = True
                        verdict["build"] = b
                        verdict["signatures"] = sorted(set(re.findall(r"signature=(\S+)", o)))[:4]
                        break
                res[p] = verdict
        sh("git checkout -q -- .", cwd=repo)
        if UPDATE_META and "error" not in res:
            for pp, v in res.items():
                meta["check_verdicts"][pp] = {"exit": 1 if v["detected"] else 0, "detected": v["detected"], "signatures": v.get("signatures", []),
                                              "build": v.get("build"), "builds_run": v["builds_run"]}
                meta.setdefault("what_was_run", []).append("scratch worktree of /repo + patch.diff; vprop %s --tier quick in builds %s -> %s" % (
                    pp, ",".join(v["builds_run"]), "VIOLATION reported" if v["detected"] else "silent"))
            meta["caught_by"] = [pp for pp, v in meta["check_verdicts"].items() if v.get("detected")]
            json.dump(meta, open(os.path.join(d, "meta.json"), "w"), indent=1)
        with lock:
            out[name] = res
            print(name, {k: (v.get("detected") if isinstance(v, dict) else v) for k, v in res.items()}, flush=True)
            json.dump(out, open(os.path.join(V, "seeded", "final_recheck.json"), "w"), indent=1, sort_keys=True)
    sh("git -C /repo worktree remove --force %s" % repo)
    shutil.rmtree(L, ignore_errors=True)


UPDATE_META = False


def main():
    global UPDATE_META
    a = sys.argv[1:]
    if "--update-meta" in a:
        UPDATE_META = True
        a.remove("--update-meta")
    lanes = int(a[0]) if a and a[0].isdigit() else 3
    prefixes = [x for x in a if not x.isdigit()]
    names = sorted(os.path.basename(os.path.dirname(f)) for f in glob.glob(os.path.join(V, "seeded", "*", "meta.json")))
    if prefixes:
        names = [n for n in names if any(n.startswith(p) for p in prefixes)]
    out = {}
    p = os.path.join(V, "seeded", "final_recheck.json")
    if os.path.exists(p) and prefixes:
        out = json.load(open(p))
    lock = threading.Lock()
    ts = []
    for i in range(lanes):
        t = threading.Thread(target=lane, args=(i, names[i::lanes], out, lock))
        t.start()
        ts.append(t)
    for t in ts:
        t.join()
    missed = [n for n, r in out.items() if isinstance(r, dict) and not any(isinstance(v, dict) and v.get("detected") for v in r.values())]
    print("DONE; changes not reported by any check run:", missed)


if __name__ == "__main__":
    main()
