#!/usr/bin/env python3
"""Sensitivity exercise with hand-written changes (section 8 of DESIGN.md).

For every entry: the change is made in a scratch worktree (/tmp/wt/base), the repository's own test suite is run there
(a change the existing tests already catch is recorded as such and not used), the diff is applied to /repo, the listed
checks are run (quick tier), and /repo is restored. Results go to /verif/seeded/own_mutants.json (patch text, verdicts).
Nothing is committed to /repo.

  tools/own_mutants.py [name ...]       run the named entries (default: all that have no recorded result yet)
"""
import json, os, subprocess, sys, time

V = os.path.dirname(os.path.dirname(os.path.abspath(__file__)))
WT = "/tmp/wt/base"
os.makedirs("/tmp/seed_tmp", exist_ok=True)
if not os.path.isdir(WT):
    # scratch worktree of /repo (outside /repo and /verif); remove it afterwards with `git -C /repo worktree remove --force /tmp/wt/base`
    os.makedirs(os.path.dirname(WT), exist_ok=True)
    subprocess.run(["git", "-C", "/repo", "worktree", "add", "--detach", "-q", WT, "HEAD"], check=True)
    subprocess.run(["cp", "/repo/Cargo.lock", WT], check=False)
ENV = dict(os.environ, CARGO_NET_OFFLINE="true", TMPDIR="/tmp/seed_tmp")
OUT = os.path.join(V, "seeded", "own_mutants.json")

# (name, property, checks to run, file, old text, new text, which occurrence (0-based), description)
M = [
 ("own-C01-le-unary-spill-off-by-one", "C01", ["C01"], "src/impls/buf_bit_writer.rs",
  "            self.buffer = WW::Word::ONE << (WW::Word::BITS - 1);\n            self.space_left_in_buffer = WW::Word::BITS - (value as usize + 1);",
  "            self.buffer = WW::Word::ONE << (WW::Word::BITS - 1);\n            self.space_left_in_buffer = WW::Word::BITS - core::cmp::max(value as usize + 1, 2);", 0,
  "LE write_unary spill path: a unary code ending exactly one bit into a fresh word claims two bits of the buffer"),
 ("own-C01-flush-le-returns-padding", "C01", ["C01", "C14"], "src/impls/buf_bit_writer.rs",
  "        buf_bit_writer.buffer >>= buf_bit_writer.space_left_in_buffer;\n        buf_bit_writer\n            .backend\n            .write_word(buf_bit_writer.buffer.to_le())?;\n        buf_bit_writer.space_left_in_buffer = WW::Word::BITS;\n    }\n    buf_bit_writer.backend.flush()?;\n    Ok(to_flush)",
  "        buf_bit_writer.buffer >>= buf_bit_writer.space_left_in_buffer;\n        buf_bit_writer\n            .backend\n            .write_word(buf_bit_writer.buffer.to_le())?;\n        let padding = buf_bit_writer.space_left_in_buffer;\n        buf_bit_writer.space_left_in_buffer = WW::Word::BITS;\n        buf_bit_writer.backend.flush()?;\n        return Ok(padding);\n    }\n    buf_bit_writer.backend.flush()?;\n    Ok(to_flush)", 0,
  "LE flush reports the number of padding bits instead of the number of pending bits"),
 ("own-C02-le-read-bits-slow-path-mask", "C02", ["C02", "C03"], "src/impls/buf_bit_reader.rs",
  "        let shamt = 64 - n_bits;\n        let upcasted: u64 = new_word.upcast();\n        let final_bits: u64 = ((upcasted << shamt) >> shamt).downcast();",
  "        let shamt = 64 - n_bits;\n        let upcasted: u64 = new_word.upcast();\n        let final_bits: u64 = if n_bits == WR::Word::BITS { upcasted >> 1 } else { ((upcasted << shamt) >> shamt).downcast() };", 0,
  "LE read_bits slow path: when exactly one whole word completes the read, its bits are shifted by one"),
 ("own-C06-len-minbin-ge", "C06", ["C06", "C20", "C15"], "src/codes/minimal_binary.rs",
  "    let mut result = l as usize;\n    if n >= limit {", "    let mut result = l as usize;\n    if n > limit {", 0,
  "len_minimal_binary is one bit short exactly at the threshold value"),
 ("own-C05-zeta-table-skip-capped", "C05", ["C05", "C03"], "src/codes/zeta_tables.rs",
  "pub fn read_table_be<B: BitRead<BE>>(backend: &mut B) -> Option<(u64, usize)> {\n    if let Ok(idx) = backend.peek_bits(READ_BITS) {\n        let idx: u64 = idx.cast();\n        let len = READ_LEN_BE[idx as usize];\n        if len != MISSING_VALUE_LEN_BE {\n            backend.skip_bits_after_peek(len as usize);",
  "pub fn read_table_be<B: BitRead<BE>>(backend: &mut B) -> Option<(u64, usize)> {\n    if let Ok(idx) = backend.peek_bits(READ_BITS) {\n        let idx: u64 = idx.cast();\n        let len = READ_LEN_BE[idx as usize];\n        if len != MISSING_VALUE_LEN_BE {\n            backend.skip_bits_after_peek(core::cmp::min(len as usize, READ_BITS - 1));", 0,
  "BE zeta_3 table read skips at most 11 bits: codewords of exactly 12 bits leave the reader one bit short"),
 ("own-C06-funclen-rice3", "C06", ["C06", "C10"], "src/dispatch/dynamic.rs",
  "    const RICE3: LenFn = |value| len_rice(value, 3);", "    const RICE3: LenFn = |value| len_rice(value, 2);", 0,
  "FuncCodeLen for Rice(3) computes the length of Rice(2)"),
 ("own-C07-le-bit-pos-mod-word", "C07", ["C07", "C05"], "src/impls/buf_bit_reader.rs",
  "        Ok(self.backend.word_pos()? * WR::Word::BITS as u64 - self.bits_in_buffer as u64)",
  "        Ok(self.backend.word_pos()? * WR::Word::BITS as u64 - (self.bits_in_buffer % WR::Word::BITS) as u64)", 1,
  "LE bit_pos ignores whole buffered words: wrong whenever a look-ahead left a full word or more in the buffer"),
 ("own-C09-vec-readback-zero-at-end", "C09", ["C09", "C13"], "src/impls/mem_word_writer.rs",
  "            None => Err(std::io::Error::new(\n                std::io::ErrorKind::UnexpectedEof,\n                \"Cannot read next word as the underlying memory ended\",\n            )),\n        }\n    }\n}\n\n#[cfg(feature = \"alloc\")]\nimpl<W: Word, B: AsMut<alloc::vec::Vec<W>> + AsRef<alloc::vec::Vec<W>>> WordSeek",
  "            None => {\n                self.word_index += 1;\n                Ok(W::ZERO)\n            }\n        }\n    }\n}\n\n#[cfg(feature = \"alloc\")]\nimpl<W: Word, B: AsMut<alloc::vec::Vec<W>> + AsRef<alloc::vec::Vec<W>>> WordSeek", 0,
  "MemWordWriterVec used as a reader zero-extends instead of reporting the end of the data"),
 ("own-C10-func-reader-golomb6", "C10", ["C10"], "src/dispatch/dynamic.rs",
  "    const GOLOMB6: ReadFn<E, CR> = |reader: &mut CR| reader.read_golomb(6);", "    const GOLOMB6: ReadFn<E, CR> = |reader: &mut CR| reader.read_golomb(7);", 0,
  "FuncCodeReader for Golomb(6) reads Golomb(7)"),
 ("own-C10-codes-len-expgolomb", "C10", ["C10", "C06"], "src/dispatch/codes.rs",
  "            Codes::ExpGolomb { k } => len_exp_golomb(value, *k),", "            Codes::ExpGolomb { k } => len_rice(value, *k),", 0,
  "Codes::ExpGolomb length computed with the Rice formula"),
 ("own-C11-set-word-pos-stride", "C11", ["C11", "C07"], "src/impls/word_adapter.rs",
  "            .seek(SeekFrom::Start(word_index * W::BYTES as u64))?;", "            .seek(SeekFrom::Start(word_index * core::cmp::min(W::BYTES as u64, 8)))?;", 0,
  "WordAdapter::set_word_pos uses a stride capped at 8 bytes: wrong for u128 words only"),
 ("own-C12-unbuf-be-read-remainder", "C12", ["C12"], "src/impls/bit_reader.rs",
  "            rem.copy_from_slice(&word.to_be_bytes()[8 - rem.len()..]);", "            rem.copy_from_slice(&word.to_be_bytes()[..rem.len()]);", 0,
  "unbuffered BE reader: io::Read takes the remainder bytes from the wrong end of the word"),
 ("own-C13-vec-writer-grows-extra-word", "C13", ["C13", "C01"], "src/impls/mem_word_writer.rs",
  "            self.data.as_mut().resize(self.word_index + 1, W::ZERO);", "            self.data.as_mut().resize(self.word_index + 2, W::ZERO);", 0,
  "growable-vector writer grows by one word too many"),
 ("own-C14-count-writer-zeta-adds-k", "C14", ["C14"], "src/utils/count.rs",
  "        self.bit_write.write_zeta(value, k).inspect(|x| {\n            self.bits_written += *x;", "        self.bit_write.write_zeta(value, k).inspect(|x| {\n            self.bits_written += *x + (k > 9) as usize;", 0,
  "CountBitWriter::write_zeta over-counts by one for k >= 10"),
 ("own-C14-dbg-reader-skip", "C14", ["C14"], "src/utils/dbg_codes.rs",
  "        eprintln!(\"skip_bits({})\", n_bits);\n        self.reader.skip_bits(n_bits)", "        eprintln!(\"skip_bits({})\", n_bits);\n        self.reader.skip_bits(core::cmp::min(n_bits, 63))", 0,
  "DbgBitReader::skip_bits skips at most 63 bits"),
 ("own-C15-pi-index-offset", "C15", ["C15"], "src/utils/stats.rs",
  "            *val += (len_pi(n, (k + 2) as _) as u64) * count;", "            *val += (len_pi(n, (k + 1) as _) as u64) * count;", 0,
  "statistics: pi[i] accumulates the length of pi_{i+1} while best_code names pi_{i+2}"),
 ("own-C15-add-forgets-omega", "C15", ["C15"], "src/utils/stats.rs",
  "        self.omega += rhs.omega;\n", "", 0, "merging statistics drops the omega total"),
 ("own-C16-to-code-const-golomb6", "C16", ["C16", "C10"], "src/dispatch/codes.rs",
  "            Self::Golomb { b: 6 } => code_consts::GOLOMB6,", "            Self::Golomb { b: 6 } => code_consts::GOLOMB7,", 0,
  "to_code_const maps Golomb(6) to the identifier of Golomb(7)"),
 ("own-C17-to-nat-shift", "C17", ["C17"], "src/codes/mod.rs",
  "        (self << Self::ONE).to_unsigned() ^ (self >> (Self::BITS - 1)).to_unsigned()", "        (self << Self::ONE).to_unsigned() ^ (self >> (Self::BITS - 2)).to_unsigned()", 0,
  "to_nat uses a sign mask shifted by BITS-2"),
 ("own-C18-generic-write-swapped", "C18", ["C18"], "src/codes/vbyte.rs",
  "    if core::any::TypeId::of::<E>() == core::any::TypeId::of::<BigEndian>() {\n        vbyte_write_be(value, writer)", "    if core::any::TypeId::of::<E>() == core::any::TypeId::of::<LittleEndian>() {\n        vbyte_write_be(value, writer)", 0,
  "vbyte_write::<E> dispatches to the variant of the other endianness"),
 ("own-C19-checks-mask-u64-shift", "C19", ["C19"], "src/impls/buf_bit_writer.rs",
  "            value & (1_u128 << n_bits).wrapping_sub(1) as u64 == value,", "            value & 1_u64.wrapping_shl(n_bits as u32).wrapping_sub(1) == value,", 1,
  "LE `checks` assertion computes the mask in 64 bits: every non-zero 64-bit write is rejected"),
 ("own-C19-gamma-cleanup-removed", "C19", ["C19"], "src/codes/gamma.rs",
  "        // Clean up n in case checks are enabled\n        n ^= 1 << λ;", "        // Clean up n in case checks are enabled\n        n ^= (1 << λ) & 0xFFFF_FFFF;", 0,
  "under `checks`, gamma cleans its argument only for lambda < 32: larger in-domain values trip the check"),
 ("own-C20-iterator-bound-lt", "C20", ["C20"], "src/utils/find_change.rs",
  "            if u64::MAX - self.current <= step {", "            if u64::MAX - self.current < step {", 0,
  "change-point search evaluates the function at u64::MAX (which no code can encode)"),
 ("own-C08-be-copy-from-fastpath-le", "C08", ["C08"], "src/impls/buf_bit_writer.rs",
  "        if n < self.space_left_in_buffer as u64 {\n            self.buffer = (self.buffer << n)", "        if n <= self.space_left_in_buffer as u64 {\n            self.buffer = (self.buffer << n)", 0,
  "BE copy_from fast path taken when n fills the buffer exactly: the full buffer is never written out"),
 ("own-C03-vbyte-le-read-shift", "C03", ["C03", "C18"], "src/codes/vbyte.rs",
  "            shift += 7;\n            result += 1 << shift;\n        }\n        Ok(result)\n    }\n}", "            shift += 7;\n            result += 1 << core::cmp::min(shift, 56);\n        }\n        Ok(result)\n    }\n}", 0,
  "bit-stream VByte LE reader: the offset of the 10th byte is computed with a capped shift"),
]


def sh(cmd, cwd, timeout=7200):
    r = subprocess.run(cmd, cwd=cwd, env=ENV, shell=True, stdout=subprocess.PIPE, stderr=subprocess.STDOUT, text=True, timeout=timeout)
    return r.returncode, r.stdout


def main():
    res = json.load(open(OUT)) if os.path.exists(OUT) else {}
    names = sys.argv[1:]
    for (name, prop, checks, path, old, new, occ, desc) in M:
        if names and name not in names:
            continue
        if not names and name in res:
            continue
        sh("git checkout -- .", WT)
        f = os.path.join(WT, path)
        s = open(f).read()
        idx = -1
        for _ in range(occ + 1):
            idx = s.find(old, idx + 1)
        if idx < 0:
            print("SKIP %s: pattern not found" % name)
            res[name] = {"error": "pattern not found"}
            continue
        s = s[:idx] + new + s[idx + len(old):]
        open(f, "w").write(s)
        rc, diff = sh("git diff", WT)
        rc, out = sh("cargo test --offline 2>&1 | grep -E '^test result|FAILED|^error' | head -30", WT)
        suite_ok = "FAILED" not in out and "error" not in out and out.count("test result: ok") >= 6
        entry = {"property": prop, "description": desc, "patch": diff, "existing_suite_passes": suite_ok}
        print("== %s: existing suite %s" % (name, "passes" if suite_ok else "CATCHES IT (not used)"), flush=True)
        sh("git checkout -- .", WT)
        if suite_ok:
            rc, st = sh("git status --porcelain", "/repo")
            if st.strip():
                print("/repo not clean")
                return 2
            p = "/tmp/own_mut.diff"
            open(p, "w").write(diff)
            rc, out = sh("git apply %s" % p, "/repo")
            verdicts = {}
            try:
                for c in checks:
                    t0 = time.time()
                    rc, out = sh("./check %s --tier quick" % c, V)
                    sigs = sorted(set(l.split("signature=")[1].strip() for l in out.splitlines() if "signature=" in l))
                    verdicts[c] = {"exit": rc, "detected": rc == 1, "signatures": sigs[:8], "wall_s": round(time.time() - t0, 1)}
                    print("   %s exit %d %s" % (c, rc, sigs[:4]), flush=True)
            finally:
                sh("git checkout -- .", "/repo")
            entry["check_verdicts"] = verdicts
            entry["caught_by"] = [c for c, v in verdicts.items() if v["detected"]]
        res[name] = entry
        os.makedirs(os.path.dirname(OUT), exist_ok=True)
        json.dump(res, open(OUT, "w"), indent=1)
    return 0


if __name__ == "__main__":
    sys.exit(main())
