#!/usr/bin/env python3
"""Validate MANIFEST.json and every evidence/*.json against the schemas in /root/.vp (python3-vt has jsonschema)."""
import json, sys, glob, os
import jsonschema
V = os.path.dirname(os.path.dirname(os.path.abspath(__file__)))
ok = True
def check(path, schema):
    global ok
    try:
        jsonschema.validate(json.load(open(path)), json.load(open(schema)))
        print("valid  ", path)
    except Exception as e:
        ok = False
        print("INVALID", path, str(e)[:400])
check(V + "/MANIFEST.json", "/root/.vp/MANIFEST.schema.json")
for p in sorted(glob.glob(V + "/evidence/*.json")):
    check(p, "/root/.vp/EVIDENCE.schema.json")
ids = [json.loads(l)["id"] for l in open(V + "/properties.jsonl")]
m = json.load(open(V + "/MANIFEST.json"))
claimed = [c["property_id"] for c in m["checks"]]
na = [c["property_id"] for c in m.get("not_applicable", [])]
for i in ids:
    if i not in claimed and i not in na:
        ok = False
        print("UNACCOUNTED", i)
sys.exit(0 if ok else 1)
