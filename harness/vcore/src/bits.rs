//! The bit model: the only definition of "what the bytes should be".
//!
//! A stream is a sequence of bits. Bit `i` of the stream lives in byte `i / 8`
//! at bit `7 - i % 8` (big endian) or `i % 8` (little endian). A fixed-width
//! field of `n` bits contributes the `n` low bits of its argument, most
//! significant first (BE) or least significant first (LE). A unary code of `x`
//! is `x` zeros followed by a one. This file has no dependency on the library
//! under test.

use serde::{Deserialize, Serialize};

#[derive(Clone, Copy, PartialEq, Eq, Hash, Debug, Serialize, Deserialize, PartialOrd, Ord)]
pub enum En {
    BE,
    LE,
}

impl En {
    pub const ALL: [En; 2] = [En::BE, En::LE];
    pub fn name(self) -> &'static str {
        match self {
            En::BE => "BE",
            En::LE => "LE",
        }
    }
}

#[derive(Clone, PartialEq, Eq, Hash, Debug, Default)]
pub struct BitVec {
    pub bits: Vec<bool>,
}

impl BitVec {
    pub fn new() -> Self {
        Self { bits: Vec::new() }
    }
    pub fn len(&self) -> usize {
        self.bits.len()
    }
    pub fn is_empty(&self) -> bool {
        self.bits.is_empty()
    }
    pub fn push(&mut self, b: bool) {
        self.bits.push(b)
    }
    /// Append the `n` low bits of `v` (n <= 128).
    pub fn push_field(&mut self, v: u128, n: usize, e: En) {
        assert!(n <= 128);
        match e {
            En::BE => {
                for j in (0..n).rev() {
                    self.bits.push((v >> j) & 1 == 1);
                }
            }
            En::LE => {
                for j in 0..n {
                    self.bits.push((v >> j) & 1 == 1);
                }
            }
        }
    }
    pub fn push_unary(&mut self, x: u64) {
        for _ in 0..x {
            self.bits.push(false);
        }
        self.bits.push(true);
    }
    pub fn push_zeros(&mut self, n: usize) {
        for _ in 0..n {
            self.bits.push(false);
        }
    }
    pub fn extend(&mut self, o: &BitVec) {
        self.bits.extend_from_slice(&o.bits);
    }
    /// Zero padding up to the next multiple of `mult` bits; returns the number
    /// of padding bits.
    pub fn pad_to(&mut self, mult: usize) -> usize {
        let r = self.bits.len() % mult;
        if r == 0 {
            return 0;
        }
        let p = mult - r;
        self.push_zeros(p);
        p
    }
    /// Canonical byte image (the last byte is zero padded).
    pub fn to_bytes(&self, e: En) -> Vec<u8> {
        let mut out = vec![0u8; self.bits.len().div_ceil(8)];
        for (i, &b) in self.bits.iter().enumerate() {
            if b {
                let sh = match e {
                    En::BE => 7 - i % 8,
                    En::LE => i % 8,
                };
                out[i / 8] |= 1 << sh;
            }
        }
        out
    }
    pub fn from_bytes(bytes: &[u8], e: En) -> Self {
        let mut bits = Vec::with_capacity(bytes.len() * 8);
        for &by in bytes {
            for i in 0..8 {
                let sh = match e {
                    En::BE => 7 - i,
                    En::LE => i,
                };
                bits.push((by >> sh) & 1 == 1);
            }
        }
        Self { bits }
    }
    /// Bit at `i`, zero beyond the end.
    #[inline]
    pub fn get(&self, i: usize) -> bool {
        self.bits.get(i).copied().unwrap_or(false)
    }
    /// The `n`-bit field starting at `pos` (bits beyond the end read as zero).
    pub fn field(&self, pos: usize, n: usize, e: En) -> u128 {
        assert!(n <= 128);
        let mut v = 0u128;
        match e {
            En::BE => {
                for j in 0..n {
                    v = (v << 1) | self.get(pos + j) as u128;
                }
            }
            En::LE => {
                for j in 0..n {
                    v |= (self.get(pos + j) as u128) << j;
                }
            }
        }
        v
    }
    /// Position of the first one at or after `pos`, if any.
    pub fn next_one(&self, pos: usize) -> Option<usize> {
        (pos..self.bits.len()).find(|&i| self.bits[i])
    }
    pub fn slice(&self, from: usize, to: usize) -> BitVec {
        BitVec {
            bits: (from..to).map(|i| self.get(i)).collect(),
        }
    }
    pub fn truncate(&mut self, n: usize) {
        self.bits.truncate(n)
    }
    pub fn to_string01(&self) -> String {
        self.bits.iter().map(|&b| if b { '1' } else { '0' }).collect()
    }
}

#[cfg(test)]
mod t {
    use super::*;
    #[test]
    fn layout() {
        // the documented example: writing 6 in 3 bits gives 110xxxxx (BE) and xxxxx110 (LE)
        let mut b = BitVec::new();
        b.push_field(6, 3, En::BE);
        assert_eq!(b.to_bytes(En::BE), vec![0b1100_0000]);
        let mut b = BitVec::new();
        b.push_field(6, 3, En::LE);
        assert_eq!(b.to_bytes(En::LE), vec![0b0000_0110]);
        let b = BitVec::from_bytes(&[0x80, 0x01], En::BE);
        assert!(b.get(0) && b.get(15) && !b.get(1));
        let b = BitVec::from_bytes(&[0x80, 0x01], En::LE);
        assert!(b.get(7) && b.get(8) && !b.get(0));
        assert_eq!(b.field(7, 2, En::LE), 3);
    }
}
