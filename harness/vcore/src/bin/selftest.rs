fn main() {
    match vcore::selftest::run() {
        Ok(n) => println!("reference self-test ok: {} checks", n),
        Err(e) => {
            eprintln!("REFERENCE SELF-TEST FAILED: {}", e);
            std::process::exit(2);
        }
    }
}
