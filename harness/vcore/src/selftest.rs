//! Validation of the reference itself, so that a reference bug cannot raise a false alarm.
//! A failure here means "the check is broken" (exit 2), never a violation.

use crate::bits::{BitVec, En};
use crate::grid;
use crate::refcodes::*;

pub const GOLDEN: &[(Code, u64, u64, u64)] = &[
    (Code::Gamma, 0, 0x8000000000000000, 0x0000000000000001),
    (Code::Gamma, 1, 0x4000000000000000, 0x0000000000000002),
    (Code::Gamma, 2, 0x6000000000000000, 0x0000000000000006),
    (Code::Gamma, 3, 0x2000000000000000, 0x0000000000000004),
    (Code::Gamma, 4, 0x2800000000000000, 0x000000000000000c),
    (Code::Gamma, 5, 0x3000000000000000, 0x0000000000000014),
    (Code::Gamma, 6, 0x3800000000000000, 0x000000000000001c),
    (Code::Gamma, 7, 0x1000000000000000, 0x0000000000000008),
    (Code::Gamma, 8, 0x1200000000000000, 0x0000000000000018),
    (Code::Gamma, 9, 0x1400000000000000, 0x0000000000000028),
    (Code::Gamma, 10, 0x1600000000000000, 0x0000000000000038),
    (Code::Delta, 0, 0x8000000000000000, 0x0000000000000001),
    (Code::Delta, 1, 0x4000000000000000, 0x0000000000000002),
    (Code::Delta, 2, 0x5000000000000000, 0x000000000000000a),
    (Code::Delta, 3, 0x6000000000000000, 0x0000000000000006),
    (Code::Delta, 4, 0x6800000000000000, 0x000000000000000e),
    (Code::Delta, 5, 0x7000000000000000, 0x0000000000000016),
    (Code::Delta, 6, 0x7800000000000000, 0x000000000000001e),
    (Code::Delta, 7, 0x2000000000000000, 0x0000000000000004),
    (Code::Delta, 8, 0x2100000000000000, 0x0000000000000024),
    (Code::Delta, 9, 0x2200000000000000, 0x0000000000000044),
    (Code::Delta, 10, 0x2300000000000000, 0x0000000000000064),
    (Code::Zeta(3), 0, 0x8000000000000000, 0x0000000000000001),
    (Code::Zeta(3), 1, 0xa000000000000000, 0x0000000000000003),
    (Code::Zeta(3), 2, 0xb000000000000000, 0x000000000000000b),
    (Code::Zeta(3), 3, 0xc000000000000000, 0x0000000000000005),
    (Code::Zeta(3), 4, 0xd000000000000000, 0x000000000000000d),
    (Code::Zeta(3), 5, 0xe000000000000000, 0x0000000000000007),
    (Code::Zeta(3), 6, 0xf000000000000000, 0x000000000000000f),
    (Code::Zeta(3), 7, 0x4000000000000000, 0x0000000000000002),
    (Code::Zeta(3), 8, 0x4200000000000000, 0x0000000000000006),
    (Code::Zeta(3), 9, 0x4400000000000000, 0x000000000000000a),
    (Code::Zeta(3), 10, 0x4600000000000000, 0x000000000000000e),
    (Code::Zeta(2), 0, 0x8000000000000000, 0x0000000000000001),
    (Code::Zeta(2), 1, 0xc000000000000000, 0x0000000000000003),
    (Code::Zeta(2), 2, 0xe000000000000000, 0x0000000000000007),
    (Code::Zeta(2), 3, 0x4000000000000000, 0x0000000000000002),
    (Code::Zeta(2), 4, 0x4800000000000000, 0x0000000000000006),
    (Code::Zeta(2), 5, 0x5000000000000000, 0x000000000000000a),
    (Code::Zeta(2), 6, 0x5800000000000000, 0x000000000000000e),
    (Code::Zeta(2), 7, 0x6000000000000000, 0x0000000000000012),
    (Code::Zeta(2), 8, 0x6400000000000000, 0x0000000000000032),
    (Code::Zeta(2), 9, 0x6800000000000000, 0x0000000000000016),
    (Code::Zeta(2), 10, 0x6c00000000000000, 0x0000000000000036),
];

fn bits_of_str(s: &str) -> BitVec {
    let mut b = BitVec::new();
    for ch in s.chars() {
        match ch {
            '0' => b.push(false),
            '1' => b.push(true),
            _ => {}
        }
    }
    b
}

/// Literal codewords from the documentation and unit tests of the library, written in stream
/// order (first bit of the stream first).
const LITERAL_BE: &[(Code, u64, &str)] = &[
    // table in src/codes/mod.rs
    (Code::Unary, 0, "1"),
    (Code::Unary, 3, "0001"),
    (Code::Unary, 7, "00000001"),
    (Code::Gamma, 3, "00100"),
    (Code::Gamma, 7, "0001000"),
    (Code::Delta, 1, "0100"),
    (Code::Delta, 2, "0101"),
    (Code::Delta, 3, "01100"),
    (Code::Delta, 6, "01111"),
    (Code::Delta, 7, "00100000"),
    // src/codes/omega.rs unit test
    (Code::Omega, 0, "0"),
    (Code::Omega, 1, "100"),
    (Code::Omega, 2, "110"),
    (Code::Omega, 3, "101000"),
    (Code::Omega, 6, "101110"),
    (Code::Omega, 7, "1110000"),
    (Code::Omega, 10, "1110110"),
    (Code::Omega, 15, "10100100000"),
    (Code::Omega, 99, "1011011001000"),
    (Code::Omega, 999, "11100111111010000"),
    (Code::Omega, 999_999, "1010010011111101000010010000000"),
    // src/codes/pi.rs unit test
    (Code::Pi(2), 20, "01000101"),
    (Code::Pi(2), 0, "100"),
    (Code::Pi(2), 1, "1010"),
    (Code::Pi(2), 2, "1011"),
    (Code::Pi(2), 3, "11000"),
    (Code::Pi(2), 6, "11011"),
    (Code::Pi(2), 7, "111000"),
    (Code::Pi(3), 0, "1000"),
    (Code::Pi(3), 1, "10010"),
    (Code::Pi(3), 2, "10011"),
    (Code::Pi(3), 3, "101000"),
    (Code::Pi(3), 6, "101011"),
    (Code::Pi(3), 7, "1011000"),
    // minimal binary with upper bound 7 (src/codes/mod.rs)
    (Code::MinBin(7), 0, "00"),
    (Code::MinBin(7), 1, "010"),
    (Code::MinBin(7), 2, "011"),
    (Code::MinBin(7), 3, "100"),
    (Code::MinBin(7), 6, "111"),
];

/// Little-endian literals, written as the library's tests write them: as a binary number whose
/// least significant bit is the first bit of the stream.
const LITERAL_LE_NUM: &[(Code, u64, u64, usize)] = &[
    (Code::Gamma, 4, 0b01100, 5),
    (Code::MinBin(7), 2, 0b101, 3),
    (Code::Omega, 0, 0, 1),
    (Code::Omega, 1, 0b0_01, 3),
    (Code::Omega, 2, 0b0_11, 3),
    (Code::Omega, 3, 0b0_001_01, 6),
    (Code::Omega, 4, 0b0_011_01, 6),
    (Code::Omega, 5, 0b0_101_01, 6),
    (Code::Omega, 6, 0b0_111_01, 6),
    (Code::Omega, 7, 0b0_0001_11, 7),
    (Code::Omega, 10, 0b0011111, 7),
    (Code::Omega, 15, 0b0_00001_001_01, 11),
    (Code::Omega, 99, 0b0_1001001_101_01, 13),
    (Code::Omega, 999, 0b0_1111010001_0011_11, 17),
    (Code::Omega, 999_999, 0b0_11101000010010000001_00111_001_01, 31),
];

pub fn run() -> Result<usize, String> {
    let mut n = 0usize;
    // 1. golden vectors of tests/test_codes_regression.rs
    for &(c, v, be, le) in GOLDEN {
        let b = encoded(c, v, En::BE);
        if b.len() > 64 {
            return Err(format!("golden {:?} {} too long", c, v));
        }
        let mut w = b.clone();
        w.pad_to(64);
        let got = w.field(0, 64, En::BE) as u64;
        if got != be {
            return Err(format!("golden BE {:?} {}: ref {:064b} exp {:064b}", c, v, got, be));
        }
        let b = encoded(c, v, En::LE);
        let mut w = b.clone();
        w.pad_to(64);
        let got = w.field(0, 64, En::LE) as u64;
        if got != le {
            return Err(format!("golden LE {:?} {}: ref {:064b} exp {:064b}", c, v, got, le));
        }
        n += 2;
    }
    for &(c, v, s) in LITERAL_BE {
        let b = encoded(c, v, En::BE);
        if b != bits_of_str(s) {
            return Err(format!("literal BE {:?} {}: ref {} exp {}", c, v, b.to_string01(), s));
        }
        n += 1;
    }
    for &(c, v, num, l) in LITERAL_LE_NUM {
        let b = encoded(c, v, En::LE);
        if b.len() != l || b.field(0, l, En::LE) as u64 != num {
            return Err(format!("literal LE {:?} {}: ref {} exp {:b}/{}", c, v, b.to_string01(), num, l));
        }
        n += 1;
    }
    // unary is the only code that is bit-reversal symmetric; zeta_1 = pi_0 = gamma = expgolomb_0,
    // zeta_2 = pi_1 in BE, rice_0 = golomb_1 = unary, golomb_{2^k} = rice_k (documented identities)
    for v in (0..2000u64).chain([1 << 20, (1 << 32) + 5, u64::MAX - 1]) {
        for e in En::ALL {
            let g = encoded(Code::Gamma, v, e);
            for c in [Code::Zeta(1), Code::Pi(0), Code::ExpGolomb(0)] {
                if encoded(c, v, e) != g {
                    return Err(format!("identity gamma vs {:?} at {} {:?}", c, v, e));
                }
            }
            if v < 3000 {
                let u = encoded(Code::Unary, v, e);
                for c in [Code::Rice(0), Code::Golomb(1)] {
                    if encoded(c, v, e) != u {
                        return Err(format!("identity unary vs {:?} at {}", c, v));
                    }
                }
                for k in 1..5u32 {
                    if encoded(Code::Rice(k), v, e) != encoded(Code::Golomb(1 << k), v, e) {
                        return Err(format!("identity rice/golomb k={} at {}", k, v));
                    }
                }
            }
            n += 1;
        }
        if encoded(Code::Zeta(2), v, En::BE) != encoded(Code::Pi(1), v, En::BE) {
            return Err(format!("identity zeta2/pi1 BE at {}", v));
        }
        if len(Code::Zeta(2), v) != len(Code::Pi(1), v) {
            return Err(format!("identity len zeta2/pi1 at {}", v));
        }
    }
    // 2. decode(encode(v)) == v, closed-form len == encoded length, on the whole grid,
    //    embedded at an offset and followed by garbage
    for c in grid::all_codes_small() {
        for v in grid::values_for(c, 600, 0x5eed) {
            for e in En::ALL {
                let mut b = BitVec::new();
                b.push_field(0b101, 3, e);
                let start = b.len();
                encode(c, v, e, &mut b);
                let l = b.len() - start;
                if l != len(c, v) {
                    return Err(format!("len {:?} {}: closed form {} encoded {}", c, v, len(c, v), l));
                }
                b.push_field(0x2d, 7, e);
                match decode(c, &b, start, e, false) {
                    Some((v2, l2)) if v2 == v && l2 == l => {}
                    o => return Err(format!("roundtrip {:?} {} {:?}: {:?}", c, v, e, o)),
                }
                // every strict prefix must be reported incomplete
                if l > 0 {
                    let cut = b.slice(0, start + l - 1);
                    if decode(c, &cut, start, e, false).is_some() {
                        return Err(format!("prefix of {:?} {} {:?} decodes", c, v, e));
                    }
                }
                n += 1;
            }
        }
    }
    // 3. prefix-freeness and completeness of each reference code on its first values (exact
    //    Kraft sum with integer arithmetic): sum over v < N of 2^(L - len(v)) <= 2^L
    for c in grid::all_codes_small() {
        if let Code::MinBin(u) = c {
            if u <= 4096 {
                let mut s: u128 = 0;
                for v in 0..u {
                    s += 1u128 << (100 - len(c, v));
                }
                if s != 1u128 << 100 {
                    return Err(format!("minbin {} not complete", u));
                }
            }
            continue;
        }
        let mut s: u128 = 0;
        for v in 0..4096u64 {
            let l = len(c, v);
            if l <= 100 {
                s += 1u128 << (100 - l);
            }
        }
        if s > 1u128 << 100 {
            return Err(format!("Kraft violated by reference {:?}", c));
        }
        n += 1;
    }
    // 4. vbyte: value(bytes(v)) == v and completeness on all 1- and 2-byte strings
    for big in [true, false] {
        for v in (0..70000u64).chain([u64::MAX, u64::MAX - 1, 1 << 63]) {
            let by = vbyte_bytes(v, big);
            if vbyte_value(&by, big) != v as u128 {
                return Err(format!("vbyte value/bytes {}", v));
            }
        }
        let mut seen = std::collections::HashSet::new();
        for a in 0..=255u8 {
            if a & 0x80 == 0 {
                seen.insert(vbyte_value(&[a], big));
            } else {
                for b2 in 0..128u8 {
                    seen.insert(vbyte_value(&[a, b2], big));
                }
            }
        }
        if seen.len() != 128 + 128 * 128 || seen.iter().max() != Some(&((128 + 128 * 128 - 1) as u128)) {
            return Err("vbyte completeness of the reference".into());
        }
        n += 1;
    }
    Ok(n)
}
