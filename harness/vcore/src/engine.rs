//! The exploration engine shared by every property: byte-source decoding of structured cases
//! (one decoder serves proptest and libFuzzer), case execution under `catch_unwind`, counters,
//! class histograms, distinct-nontrivial counting, sampling, shrinking through proptest,
//! evidence and replay files.

use proptest::strategy::{Strategy, ValueTree};
use proptest::test_runner::{Config, RngAlgorithm, TestCaseError, TestError, TestRng, TestRunner};
use serde::de::DeserializeOwned;
use serde::Serialize;
use serde_json::{json, Value};
use std::collections::{BTreeMap, HashSet};
use std::hash::{Hash, Hasher};
use std::panic::{catch_unwind, AssertUnwindSafe};
use std::sync::Mutex;

// ---------------------------------------------------------------------------------------------
// Byte source: structured decoding of a byte string (Unstructured-style; zeros when exhausted)
// ---------------------------------------------------------------------------------------------

pub struct Src<'a> {
    data: &'a [u8],
    pos: usize,
}

impl<'a> Src<'a> {
    pub fn new(data: &'a [u8]) -> Self {
        Src { data, pos: 0 }
    }
    pub fn exhausted(&self) -> bool {
        self.pos >= self.data.len()
    }
    pub fn remaining(&self) -> usize {
        self.data.len().saturating_sub(self.pos)
    }
    pub fn u8(&mut self) -> u8 {
        let b = self.data.get(self.pos).copied().unwrap_or(0);
        self.pos += 1;
        b
    }
    pub fn u16(&mut self) -> u16 {
        (self.u8() as u16) | ((self.u8() as u16) << 8)
    }
    pub fn u64(&mut self) -> u64 {
        let mut v = 0u64;
        for i in 0..8 {
            v |= (self.u8() as u64) << (8 * i);
        }
        v
    }
    /// Monotone map of one or two bytes onto 0..n (smaller bytes give smaller results, so
    /// shrinking the bytes shrinks the case).
    pub fn below(&mut self, n: usize) -> usize {
        if n <= 1 {
            return 0;
        }
        if n <= 256 {
            (self.u8() as usize * n) >> 8
        } else {
            (self.u16() as usize * n) >> 16
        }
    }
    pub fn range(&mut self, lo: usize, hi_incl: usize) -> usize {
        lo + self.below(hi_incl - lo + 1)
    }
    pub fn bool(&mut self) -> bool {
        self.u8() & 1 == 1
    }
    pub fn pick<T: Copy>(&mut self, xs: &[T]) -> T {
        xs[self.below(xs.len())]
    }
    /// Weighted choice: index i with probability w[i] / sum(w).
    pub fn weighted(&mut self, w: &[u32]) -> usize {
        let total: u32 = w.iter().sum();
        let mut x = ((self.u16() as u64 * total as u64) >> 16) as u32;
        for (i, &wi) in w.iter().enumerate() {
            if x < wi {
                return i;
            }
            x -= wi;
        }
        w.len() - 1
    }
    /// A 64-bit value with magnitude uniform over bit lengths (0 when the source is exhausted).
    pub fn mag64(&mut self) -> u64 {
        let bits = self.below(65);
        if bits == 0 {
            return 0;
        }
        let raw = self.u64();
        (raw >> (64 - bits)) | (1u64 << (bits - 1))
    }
    /// A value near a power of two: 2^i + d, d in -2..=2 (wrapping).
    pub fn near_pow2(&mut self) -> u64 {
        let i = self.below(64) as u32;
        let d = self.below(5) as i64 - 2;
        (1u64 << i).wrapping_add(d as u64)
    }
}

// ---------------------------------------------------------------------------------------------
// Verdicts
// ---------------------------------------------------------------------------------------------

#[derive(Clone, Debug, Default)]
pub struct Outcome {
    pub nontrivial: bool,
    pub labels: Vec<&'static str>,
    /// number of elementary checks performed inside this case (batched cases)
    pub units: u64,
}

impl Outcome {
    pub fn new() -> Self {
        Self::default()
    }
    pub fn label(&mut self, l: &'static str) {
        if !self.labels.contains(&l) {
            self.labels.push(l);
        }
    }
    pub fn nt(&mut self, l: &'static str) {
        self.nontrivial = true;
        self.label(l);
    }
}

#[derive(Clone, Debug)]
pub struct Failure {
    /// Names the failing call site and input class; used to match known findings.
    pub sig: String,
    pub msg: String,
}

impl Failure {
    pub fn new(sig: impl Into<String>, msg: impl Into<String>) -> Self {
        Failure { sig: sig.into(), msg: msg.into() }
    }
}

pub type CheckResult = Result<Outcome, Failure>;

#[macro_export]
macro_rules! fail {
    ($sig:expr, $($arg:tt)*) => {
        return Err($crate::engine::Failure::new($sig, format!($($arg)*)))
    };
}

#[macro_export]
macro_rules! ensure {
    ($cond:expr, $sig:expr, $($arg:tt)*) => {
        if !($cond) {
            return Err($crate::engine::Failure::new($sig, format!($($arg)*)));
        }
    };
}

pub fn panic_text(p: &(dyn std::any::Any + Send)) -> String {
    if let Some(s) = p.downcast_ref::<&str>() {
        s.to_string()
    } else if let Some(s) = p.downcast_ref::<String>() {
        s.clone()
    } else {
        "<non-string panic>".into()
    }
}

/// Run `f`, mapping a panic to `Err(text)`.
pub fn guarded<T>(f: impl FnOnce() -> T) -> Result<T, String> {
    catch_unwind(AssertUnwindSafe(f)).map_err(|p| panic_text(&*p))
}

pub fn silence_panics() {
    std::panic::set_hook(Box::new(|_| {}));
}

// ---------------------------------------------------------------------------------------------
// Run context and statistics
// ---------------------------------------------------------------------------------------------

#[derive(Clone, Copy, PartialEq, Eq, Debug)]
pub enum Tier {
    Quick,
    Thorough,
}

#[derive(Clone, Debug)]
pub struct Ctx {
    pub property: String,
    pub tier: Tier,
    pub seed: u64,
    pub build: String,
    pub replay_dir: String,
}

impl Ctx {
    pub fn quick(&self) -> bool {
        self.tier == Tier::Quick
    }
    /// pick by tier
    pub fn t<T>(&self, quick: T, thorough: T) -> T {
        if self.quick() {
            quick
        } else {
            thorough
        }
    }
}

const DISTINCT_CAP: usize = 1 << 22;
const MAX_FAILURES_KEPT: usize = 40;

#[derive(Default)]
pub struct Stats {
    pub evaluations: u64,
    pub units: u64,
    pub nontrivial_evals: u64,
    pub distinct: HashSet<u64>,
    pub distinct_capped: bool,
    pub classes: BTreeMap<String, u64>,
    pub excluded: BTreeMap<String, u64>,
    pub samples: Vec<Value>,
    pub sample_seen: u64,
    pub failures: Vec<FailureRecord>,
    pub failure_sigs: BTreeMap<String, u64>,
    pub parts: BTreeMap<String, PartInfo>,
    pub notes: Vec<String>,
}

#[derive(Default, Clone, Debug)]
pub struct PartInfo {
    pub evaluations: u64,
    pub exhaustive: bool,
    pub what: String,
}

#[derive(Clone, Debug)]
pub struct FailureRecord {
    pub part: String,
    pub sig: String,
    pub msg: String,
    pub case: Value,
    pub shrunk: bool,
}

impl Stats {
    pub fn merge(&mut self, o: Stats) {
        self.evaluations += o.evaluations;
        self.units += o.units;
        self.nontrivial_evals += o.nontrivial_evals;
        if self.distinct.len() + o.distinct.len() <= DISTINCT_CAP {
            self.distinct.extend(o.distinct);
        } else {
            for h in o.distinct {
                if self.distinct.len() >= DISTINCT_CAP {
                    self.distinct_capped = true;
                    break;
                }
                self.distinct.insert(h);
            }
        }
        self.distinct_capped |= o.distinct_capped;
        for (k, v) in o.classes {
            *self.classes.entry(k).or_default() += v;
        }
        for (k, v) in o.excluded {
            *self.excluded.entry(k).or_default() += v;
        }
        for s in o.samples {
            if self.samples.len() < 24 {
                self.samples.push(s);
            }
        }
        self.sample_seen += o.sample_seen;
        for f in o.failures {
            if self.failures.len() < MAX_FAILURES_KEPT && !self.failures.iter().any(|g| g.sig == f.sig) {
                self.failures.push(f);
            }
        }
        for (k, v) in o.failure_sigs {
            *self.failure_sigs.entry(k).or_default() += v;
        }
        for (k, v) in o.parts {
            let e = self.parts.entry(k).or_default();
            e.evaluations += v.evaluations;
            e.exhaustive |= v.exhaustive;
            if e.what.is_empty() {
                e.what = v.what;
            }
        }
        self.notes.extend(o.notes);
    }
    pub fn exclude(&mut self, why: &str, n: u64) {
        *self.excluded.entry(why.to_string()).or_default() += n;
    }
}

pub trait CaseT: Serialize + DeserializeOwned + Hash + Clone + std::fmt::Debug + Send + Sync {}
impl<T: Serialize + DeserializeOwned + Hash + Clone + std::fmt::Debug + Send + Sync> CaseT for T {}

fn hash_case<C: Hash>(part: &str, c: &C) -> u64 {
    #[allow(deprecated)]
    let mut h = std::hash::SipHasher::new();
    part.hash(&mut h);
    c.hash(&mut h);
    h.finish()
}

/// One named sub-exploration, executed on one thread.
pub struct Part<'a> {
    pub ctx: &'a Ctx,
    pub name: String,
    pub stats: Stats,
    sample_rng: u64,
}

impl<'a> Part<'a> {
    pub fn new(ctx: &'a Ctx, name: impl Into<String>, what: &str, exhaustive: bool) -> Self {
        let name = name.into();
        let mut stats = Stats::default();
        stats.parts.insert(name.clone(), PartInfo { evaluations: 0, exhaustive, what: what.to_string() });
        let sample_rng = hash_case(&name, &ctx.seed) | 1;
        Part { ctx, name, stats, sample_rng }
    }

    fn record_ok<C: CaseT>(&mut self, case: &C, o: &Outcome) {
        self.stats.evaluations += 1;
        self.stats.units += o.units.max(1);
        self.stats.parts.get_mut(&self.name).unwrap().evaluations += 1;
        for l in &o.labels {
            *self.stats.classes.entry((*l).to_string()).or_default() += 1;
        }
        if o.nontrivial {
            self.stats.nontrivial_evals += 1;
            if self.stats.distinct.len() < DISTINCT_CAP / 16 {
                self.stats.distinct.insert(hash_case(&self.name, case));
            } else {
                self.stats.distinct_capped = true;
            }
            // reservoir of 3 non-trivial samples per part, plus the first
            self.stats.sample_seen += 1;
            let n = self.stats.sample_seen;
            self.sample_rng ^= self.sample_rng << 13;
            self.sample_rng ^= self.sample_rng >> 7;
            self.sample_rng ^= self.sample_rng << 17;
            if self.stats.samples.len() < 3 {
                self.stats.samples.push(json!({"part": self.name, "case": case, "labels": o.labels}));
            } else if self.sample_rng % n < 2 {
                let i = 1 + (self.sample_rng >> 20) as usize % 2;
                self.stats.samples[i] = json!({"part": self.name, "case": case, "labels": o.labels});
            }
        }
    }

    fn record_fail<C: CaseT>(&mut self, case: &C, f: Failure, shrunk: bool) {
        self.stats.evaluations += 1;
        self.stats.parts.get_mut(&self.name).unwrap().evaluations += 1;
        *self.stats.failure_sigs.entry(f.sig.clone()).or_default() += 1;
        if !self.stats.failures.iter().any(|g| g.sig == f.sig) && self.stats.failures.len() < MAX_FAILURES_KEPT {
            self.stats.failures.push(FailureRecord {
                part: self.name.clone(),
                sig: f.sig,
                msg: f.msg,
                case: serde_json::to_value(case).unwrap_or(Value::Null),
                shrunk,
            });
        }
    }

    /// Execute one explicitly constructed case (enumerations).
    pub fn check<C: CaseT>(&mut self, case: &C, f: &(impl Fn(&C) -> CheckResult + ?Sized)) {
        match run_guarded(case, f) {
            Ok(o) => self.record_ok(case, &o),
            Err(fl) => {
                // an enumerated failure is "shrunk" greedily by the caller's order (small first)
                self.record_fail(case, fl, false)
            }
        }
    }

    /// Random structured generation with shrinking: `n` cases decoded by `gen` from byte strings
    /// of length <= `max_len` produced by proptest (seeded); a failing case with a new signature
    /// is shrunk by proptest on the byte string (re-decoded at every step) restricted to the same
    /// signature, and the minimal case is what gets recorded.
    pub fn random<C: CaseT>(
        &mut self,
        n: u64,
        max_len: usize,
        gen: &(impl Fn(&mut Src) -> C + ?Sized),
        f: &(impl Fn(&C) -> CheckResult + ?Sized),
    ) {
        let seed = hash_case(&self.name, &self.ctx.seed);
        let mut seed_bytes = [0u8; 32];
        for i in 0..4 {
            seed_bytes[i * 8..i * 8 + 8].copy_from_slice(&(seed.wrapping_mul(i as u64 * 2 + 1).wrapping_add(i as u64)).to_le_bytes());
        }
        let cfg = Config { cases: 1, failure_persistence: None, max_shrink_iters: 4000, ..Config::default() };
        let mut runner = TestRunner::new_with_rng(cfg, TestRng::from_seed(RngAlgorithm::ChaCha, &seed_bytes));
        let strat = proptest::collection::vec(proptest::num::u8::ANY, 0..=max_len);
        for _ in 0..n {
            let tree = match strat.new_tree(&mut runner) {
                Ok(t) => t,
                Err(_) => continue,
            };
            let bytes = tree.current();
            let case = gen(&mut Src::new(&bytes));
            match run_guarded(&case, f) {
                Ok(o) => self.record_ok(&case, &o),
                Err(fl) => {
                    if self.stats.failure_sigs.contains_key(&fl.sig) {
                        self.record_fail(&case, fl, false);
                        continue;
                    }
                    // shrink, keeping the signature
                    let sig = fl.sig.clone();
                    let res = runner.run_one(tree, |b: Vec<u8>| {
                        let c = gen(&mut Src::new(&b));
                        match run_guarded(&c, f) {
                            Err(f2) if f2.sig == sig => Err(TestCaseError::fail(f2.msg)),
                            _ => Ok(()),
                        }
                    });
                    match res {
                        Err(TestError::Fail(_, min_bytes)) => {
                            let c = gen(&mut Src::new(&min_bytes));
                            match run_guarded(&c, f) {
                                Err(f2) => self.record_fail(&c, f2, true),
                                Ok(_) => self.record_fail(&case, fl, false),
                            }
                        }
                        _ => self.record_fail(&case, fl, false),
                    }
                }
            }
        }
    }

    pub fn finish(self) -> Stats {
        self.stats
    }
}

pub fn run_guarded<C>(case: &C, f: &(impl Fn(&C) -> CheckResult + ?Sized)) -> CheckResult {
    match catch_unwind(AssertUnwindSafe(|| f(case))) {
        Ok(r) => r,
        Err(p) => {
            let t = panic_text(&*p);
            let short: String = t.chars().take(60).collect();
            Err(Failure::new(format!("panic/{}", sig_sanitize(&short)), format!("panic: {}", t)))
        }
    }
}

pub fn sig_sanitize(s: &str) -> String {
    // keep signatures stable: drop digits that vary with the input
    let mut out = String::new();
    let mut last_hash = false;
    for ch in s.chars() {
        if ch.is_ascii_digit() {
            if !last_hash {
                out.push('#');
                last_hash = true;
            }
        } else {
            last_hash = false;
            out.push(if ch.is_ascii_alphanumeric() || "/_-<>=.:".contains(ch) { ch } else { '_' });
        }
    }
    out
}

// ---------------------------------------------------------------------------------------------
// Parallel job runner
// ---------------------------------------------------------------------------------------------

pub type Job<'a> = Box<dyn FnOnce(&Ctx) -> Stats + Send + 'a>;

pub fn run_jobs(ctx: &Ctx, jobs: Vec<Job<'_>>) -> Stats {
    use rayon::prelude::*;
    let total = Mutex::new(Stats::default());
    jobs.into_par_iter().for_each(|j| {
        let s = j(ctx);
        total.lock().unwrap().merge(s);
    });
    total.into_inner().unwrap()
}

// ---------------------------------------------------------------------------------------------
// Known findings, evidence, replay files
// ---------------------------------------------------------------------------------------------

#[derive(Clone, Debug, serde::Deserialize)]
pub struct KnownFinding {
    pub property: String,
    pub status: String,
    pub signature: String,
    pub what: String,
    #[serde(default)]
    pub commit: String,
}

pub fn load_known(path: &str, property: &str) -> Vec<KnownFinding> {
    let Ok(txt) = std::fs::read_to_string(path) else { return vec![] };
    let Ok(v) = serde_json::from_str::<Value>(&txt) else { return vec![] };
    let mut out = vec![];
    if let Some(arr) = v.get("findings").and_then(|a| a.as_array()) {
        for e in arr {
            if let Ok(k) = serde_json::from_value::<KnownFinding>(e.clone()) {
                if k.property == property && k.status == "known" {
                    out.push(k);
                }
            }
        }
    }
    out
}

pub struct Report {
    pub violations: Vec<(FailureRecord, String)>,
    pub known_hits: Vec<(KnownFinding, u64)>,
}

/// Write the part file for this build and the replay files; print VIOLATION / KNOWN-FINDING
/// lines. Returns the process exit code.
pub fn conclude(ctx: &Ctx, stats: Stats, rule: &str, assumptions: &[&str], wall_s: f64, out_path: &str, known_path: &str) -> i32 {
    let known = load_known(known_path, &ctx.property);
    let mut violations = vec![];
    let mut known_hits: BTreeMap<String, u64> = BTreeMap::new();
    for f in &stats.failures {
        if let Some(k) = known.iter().find(|k| k.signature == f.sig) {
            *known_hits.entry(k.signature.clone()).or_default() += stats.failure_sigs.get(&f.sig).copied().unwrap_or(1);
        } else {
            violations.push(f.clone());
        }
    }
    let _ = std::fs::create_dir_all(&ctx.replay_dir);
    let mut vio_json = vec![];
    for v in &violations {
        let body = json!({
            "property": ctx.property, "build": ctx.build, "part": v.part, "signature": v.sig,
            "message": v.msg, "shrunk": v.shrunk, "case": v.case,
        });
        let h = hash_case(&v.sig, &body.to_string());
        let path = format!("{}/{}-{:016x}.json", ctx.replay_dir, ctx.property, h);
        let _ = std::fs::write(&path, serde_json::to_string_pretty(&body).unwrap());
        println!("VIOLATION property={} replay={}", ctx.property, path);
        println!("  build={} part={} signature={}", ctx.build, v.part, v.sig);
        println!("  {}", v.msg.chars().take(600).collect::<String>());
        vio_json.push(json!({"signature": v.sig, "replay": path, "message": v.msg, "part": v.part,
            "count": stats.failure_sigs.get(&v.sig).copied().unwrap_or(1)}));
    }
    for k in &known {
        if let Some(n) = known_hits.get(&k.signature) {
            println!("KNOWN-FINDING: property={} {} (signature {}, {} failing cases in build {})", ctx.property, k.what, k.signature, n, ctx.build);
        }
    }
    let parts: Vec<Value> = stats
        .parts
        .iter()
        .map(|(k, p)| json!({"name": k, "evaluations": p.evaluations, "exhaustive": p.exhaustive, "what": p.what}))
        .collect();
    let all_exhaustive = !stats.parts.is_empty() && stats.parts.values().all(|p| p.exhaustive);
    let part = json!({
        "property_id": ctx.property,
        "tier": if ctx.quick() { "quick" } else { "thorough" },
        "seed": ctx.seed,
        "build": ctx.build,
        "wall_s": wall_s,
        "violations": violations.len(),
        "violation_list": vio_json,
        "known_findings_hit": known_hits,
        "coverage": {
            "evaluations": stats.evaluations,
            "elementary_checks": stats.units,
            "nontrivial_evaluations": stats.nontrivial_evals,
            "distinct_nontrivial": stats.distinct.len(),
            "distinct_capped": stats.distinct_capped,
            "rule": rule,
            "samples": stats.samples,
            "classes": stats.classes,
            "excluded": stats.excluded,
            "parts": parts,
            "exhaustive": all_exhaustive,
            "notes": stats.notes,
        },
        "assumptions": assumptions,
    });
    if let Err(e) = std::fs::write(out_path, serde_json::to_string_pretty(&part).unwrap()) {
        eprintln!("cannot write {}: {}", out_path, e);
        return 2;
    }
    if violations.is_empty() {
        0
    } else {
        1
    }
}
