//! Reference encoders / decoders / lengths written from the prose definitions in the
//! library's module documentation, in u128 arithmetic so that nothing wraps.
//! No dependency on the library under test.

use crate::bits::{BitVec, En};
use serde::{Deserialize, Serialize};

#[derive(Clone, Copy, PartialEq, Eq, Hash, Debug, Serialize, Deserialize, PartialOrd, Ord)]
pub enum Code {
    Unary,
    Gamma,
    Delta,
    Omega,
    /// zeta_k with the library's documented 64-bit wrapping interval bound
    Zeta(u32),
    Pi(u32),
    Golomb(u64),
    Rice(u32),
    ExpGolomb(u32),
    /// minimal binary with upper bound u (values 0..u)
    MinBin(u64),
    VByteBe,
    VByteLe,
}

impl Code {
    pub fn family(&self) -> &'static str {
        match self {
            Code::Unary => "unary",
            Code::Gamma => "gamma",
            Code::Delta => "delta",
            Code::Omega => "omega",
            Code::Zeta(_) => "zeta",
            Code::Pi(_) => "pi",
            Code::Golomb(_) => "golomb",
            Code::Rice(_) => "rice",
            Code::ExpGolomb(_) => "expgolomb",
            Code::MinBin(_) => "minbin",
            Code::VByteBe => "vbytebe",
            Code::VByteLe => "vbytele",
        }
    }
    pub fn param(&self) -> u64 {
        match *self {
            Code::Zeta(k) | Code::Pi(k) | Code::Rice(k) | Code::ExpGolomb(k) => k as u64,
            Code::Golomb(b) | Code::MinBin(b) => b,
            _ => 0,
        }
    }
    /// Largest value the library documents as encodable for this code (D5), ignoring the
    /// "unary part must stay small" restriction which is handled by `unary_part`.
    pub fn max_value(&self) -> u64 {
        match *self {
            Code::Unary => u64::MAX - 1,
            Code::Gamma | Code::Delta | Code::Omega | Code::Zeta(_) | Code::Pi(_) => u64::MAX - 1,
            Code::ExpGolomb(k) => {
                if k == 0 {
                    u64::MAX - 1
                } else {
                    u64::MAX
                }
            }
            // the unary part must itself be a legal unary value (< 2^64 - 1)
            Code::Rice(0) | Code::Golomb(1) => u64::MAX - 1,
            Code::Rice(_) | Code::Golomb(_) => u64::MAX,
            Code::MinBin(u) => u - 1,
            Code::VByteBe | Code::VByteLe => u64::MAX,
        }
    }
    /// The value of the unary part of the codeword, if the code has one that grows with the
    /// value (used to keep generated cases cheap: D1/D5).
    pub fn unary_part(&self, v: u64) -> u64 {
        match *self {
            Code::Unary => v,
            Code::Rice(k) => v >> k,
            Code::Golomb(b) => v / b,
            _ => 0,
        }
    }
}

#[inline]
fn ilog2_128(x: u128) -> u32 {
    debug_assert!(x > 0);
    127 - x.leading_zeros()
}

fn mask(n: u32) -> u128 {
    if n >= 128 {
        u128::MAX
    } else {
        (1u128 << n) - 1
    }
}

/// Minimal binary code of `x < u` (documented definition; extra bit last).
pub fn enc_minbin(x: u128, u: u128, e: En, out: &mut BitVec) {
    assert!(u > 0 && x < u);
    let l = ilog2_128(u);
    let limit = (1u128 << (l + 1)) - u;
    if x < limit {
        out.push_field(x, l as usize, e);
    } else {
        let t = x + limit;
        out.push_field(t >> 1, l as usize, e);
        out.push_field(t & 1, 1, e);
    }
}

pub fn len_minbin(x: u128, u: u128) -> usize {
    let l = ilog2_128(u);
    let limit = (1u128 << (l + 1)) - u;
    if x < limit {
        l as usize
    } else {
        l as usize + 1
    }
}

fn dec_minbin(b: &BitVec, pos: usize, u: u128, e: En) -> (u128, usize) {
    let l = ilog2_128(u);
    let limit = (1u128 << (l + 1)) - u;
    let p = b.field(pos, l as usize, e);
    if p < limit {
        (p, l as usize)
    } else {
        let t = (p << 1) | b.field(pos + l as usize, 1, e);
        (t - limit, l as usize + 1)
    }
}

/// The interval bound used by zeta: `wrapping` = the library's documented 64-bit behaviour,
/// otherwise the published `2^((h+1)k) - 2^(hk)`.
pub fn zeta_bound(h: u32, k: u32, wrapping: bool) -> u128 {
    let left = 1u128 << (h * k);
    if (h + 1) * k >= 64 && wrapping {
        (1u128 << 64) - left
    } else {
        (1u128 << ((h + 1) * k)) - left
    }
}

/// True iff the zeta_k codeword of v is the same in the published and in the wrapping variant
/// *and* the interval bound fits in 64 bits (the region where C04 is claimed).
pub fn zeta_published_region(v: u64, k: u32) -> bool {
    let n = v as u128 + 1;
    let h = ilog2_128(n) / k;
    (h + 1) * k <= 63
}

fn enc_omega_rec(n: u128, e: En, out: &mut BitVec) {
    if n <= 1 {
        return;
    }
    let l = ilog2_128(n);
    enc_omega_rec(l as u128, e, out);
    match e {
        En::BE => out.push_field(n, l as usize + 1, e),
        En::LE => {
            // block rotated left by one within its width: the top bit (a one) comes first
            let rot = ((n << 1) | 1) & mask(l + 1);
            out.push_field(rot, l as usize + 1, e);
        }
    }
}

/// Encode with the `wrapping` zeta variant selectable (only matters for Code::Zeta).
pub fn encode_ex(c: Code, v: u64, e: En, wrapping: bool, out: &mut BitVec) {
    let n1 = v as u128 + 1;
    match c {
        Code::Unary => out.push_unary(v),
        Code::Gamma => {
            let l = ilog2_128(n1);
            out.push_unary(l as u64);
            out.push_field(n1 - (1 << l), l as usize, e);
        }
        Code::Delta => {
            let l = ilog2_128(n1);
            encode_ex(Code::Gamma, l as u64, e, wrapping, out);
            out.push_field(n1 - (1 << l), l as usize, e);
        }
        Code::Omega => {
            enc_omega_rec(n1, e, out);
            out.push_field(0, 1, e);
        }
        Code::Zeta(k) => {
            assert!(k >= 1);
            let h = ilog2_128(n1) / k;
            out.push_unary(h as u64);
            let left = 1u128 << (h * k);
            enc_minbin(n1 - left, zeta_bound(h, k, wrapping), e, out);
        }
        Code::Pi(k) => {
            let l = ilog2_128(n1);
            encode_ex(Code::Rice(k), l as u64, e, wrapping, out);
            out.push_field(n1 - (1 << l), l as usize, e);
        }
        Code::Rice(k) => {
            out.push_unary(v >> k);
            out.push_field(v as u128 & mask(k), k as usize, e);
        }
        Code::Golomb(b) => {
            out.push_unary(v / b);
            enc_minbin((v % b) as u128, b as u128, e, out);
        }
        Code::ExpGolomb(k) => {
            encode_ex(Code::Gamma, v >> k, e, wrapping, out);
            out.push_field(v as u128 & mask(k), k as usize, e);
        }
        Code::MinBin(u) => enc_minbin(v as u128, u as u128, e, out),
        Code::VByteBe | Code::VByteLe => {
            for by in vbyte_bytes(v, c == Code::VByteBe) {
                out.push_field(by as u128, 8, e);
            }
        }
    }
}

/// The complete, ungrouped VByte code of the documentation: values in
/// [off_L, off_L + 2^(7L)) use L bytes, off_L = 2^7 + ... + 2^(7(L-1)).
pub fn vbyte_bytes(v: u64, big: bool) -> Vec<u8> {
    let v = v as u128;
    let mut off = 0u128;
    let mut l = 1u32;
    loop {
        let span = 1u128 << (7 * l);
        if v < off + span {
            break;
        }
        off += span;
        l += 1;
    }
    let r = v - off;
    let mut groups: Vec<u8> = (0..l).map(|i| ((r >> (7 * i)) & 0x7f) as u8).collect(); // LS first
    if big {
        groups.reverse();
    }
    let last = groups.len() - 1;
    for (i, g) in groups.iter_mut().enumerate() {
        if i != last {
            *g |= 0x80;
        }
    }
    groups
}

/// Value of a terminated VByte string (u128, may exceed 64 bits), by the documented definition.
pub fn vbyte_value(bytes: &[u8], big: bool) -> u128 {
    let l = bytes.len() as u32;
    let mut off = 0u128;
    for i in 1..l {
        off += 1u128 << (7 * i);
    }
    let mut r = 0u128;
    if big {
        for &b in bytes {
            r = (r << 7) | (b & 0x7f) as u128;
        }
    } else {
        for (i, &b) in bytes.iter().enumerate() {
            r |= ((b & 0x7f) as u128) << (7 * i);
        }
    }
    off + r
}

pub fn encode(c: Code, v: u64, e: En, out: &mut BitVec) {
    encode_ex(c, v, e, true, out)
}

pub fn encoded(c: Code, v: u64, e: En) -> BitVec {
    let mut b = BitVec::new();
    encode(c, v, e, &mut b);
    b
}

/// Closed-form length (independent of `encode`; cross-checked by the self-test).
pub fn len(c: Code, v: u64) -> usize {
    let n1 = v as u128 + 1;
    match c {
        Code::Unary => v as usize + 1,
        Code::Gamma => 2 * ilog2_128(n1) as usize + 1,
        Code::Delta => {
            let l = ilog2_128(n1);
            l as usize + len(Code::Gamma, l as u64)
        }
        Code::Omega => {
            let mut total = 1usize;
            let mut n = n1;
            while n > 1 {
                let l = ilog2_128(n);
                total += l as usize + 1;
                n = l as u128;
            }
            total
        }
        Code::Zeta(k) => {
            let h = ilog2_128(n1) / k;
            let left = 1u128 << (h * k);
            h as usize + 1 + len_minbin(n1 - left, zeta_bound(h, k, true))
        }
        Code::Pi(k) => {
            let l = ilog2_128(n1);
            len(Code::Rice(k), l as u64) + l as usize
        }
        Code::Rice(k) => (v >> k) as usize + 1 + k as usize,
        Code::Golomb(b) => (v / b) as usize + 1 + len_minbin((v % b) as u128, b as u128),
        Code::ExpGolomb(k) => len(Code::Gamma, v >> k) + k as usize,
        Code::MinBin(u) => len_minbin(v as u128, u as u128),
        Code::VByteBe | Code::VByteLe => 8 * vbyte_bytes(v, true).len(),
    }
}

/// Decode one codeword starting at `pos`. Bits beyond the end of `b` read as zero when
/// `zero_ext`; otherwise needing such a bit yields `None`. `None` is also returned when the
/// stream does not hold a complete in-domain codeword (value above the domain maximum, unary
/// run without a terminating one, shift amounts out of range).
pub fn decode(c: Code, b: &BitVec, pos: usize, e: En, zero_ext: bool) -> Option<(u64, usize)> {
    let mut p = pos;
    let avail = |p: usize, n: usize| n == 0 || zero_ext || p + n <= b.len();
    let unary = |p: usize| -> Option<(u64, usize)> {
        let one = b.next_one(p)?;
        Some(((one - p) as u64, one - p + 1))
    };
    let v: u128 = match c {
        Code::Unary => {
            let (x, l) = unary(p)?;
            p += l;
            x as u128
        }
        Code::Gamma => {
            let (l, ul) = unary(p)?;
            p += ul;
            if l > 63 || !avail(p, l as usize) {
                return None;
            }
            let f = b.field(p, l as usize, e);
            p += l as usize;
            (1u128 << l) + f - 1
        }
        Code::Delta => {
            let (l, gl) = decode(Code::Gamma, b, p, e, zero_ext)?;
            p += gl;
            if l > 63 || !avail(p, l as usize) {
                return None;
            }
            let f = b.field(p, l as usize, e);
            p += l as usize;
            (1u128 << l) + f - 1
        }
        Code::Omega => {
            let mut n: u128 = 1;
            loop {
                if !avail(p, 1) {
                    return None;
                }
                if !b.get(p) {
                    p += 1;
                    break;
                }
                let l = n;
                if l > 63 || !avail(p, l as usize + 1) {
                    return None;
                }
                let raw = b.field(p, l as usize + 1, e);
                p += l as usize + 1;
                n = match e {
                    En::BE => raw,
                    En::LE => (raw >> 1) | (1u128 << l),
                };
            }
            n - 1
        }
        Code::Zeta(k) => {
            let (h, ul) = unary(p)?;
            p += ul;
            if h as u128 * k as u128 > 63 {
                return None;
            }
            let h = h as u32;
            let u = zeta_bound(h, k, true);
            let l = ilog2_128(u) as usize;
            if !avail(p, l) {
                return None;
            }
            let (r, ml) = dec_minbin(b, p, u, e);
            if !avail(p, ml) {
                return None;
            }
            p += ml;
            (1u128 << (h * k)) + r - 1
        }
        Code::Pi(k) => {
            let (l, rl) = decode(Code::Rice(k), b, p, e, zero_ext)?;
            p += rl;
            if l > 63 || !avail(p, l as usize) {
                return None;
            }
            let f = b.field(p, l as usize, e);
            p += l as usize;
            (1u128 << l) + f - 1
        }
        Code::Rice(k) => {
            let (q, ul) = unary(p)?;
            p += ul;
            if !avail(p, k as usize) {
                return None;
            }
            let f = b.field(p, k as usize, e);
            p += k as usize;
            ((q as u128) << k) + f
        }
        Code::Golomb(bb) => {
            let (q, ul) = unary(p)?;
            p += ul;
            let l = ilog2_128(bb as u128) as usize;
            if !avail(p, l) {
                return None;
            }
            let (r, ml) = dec_minbin(b, p, bb as u128, e);
            if !avail(p, ml) {
                return None;
            }
            p += ml;
            q as u128 * bb as u128 + r
        }
        Code::ExpGolomb(k) => {
            let (g, gl) = decode(Code::Gamma, b, p, e, zero_ext)?;
            p += gl;
            if !avail(p, k as usize) {
                return None;
            }
            let f = b.field(p, k as usize, e);
            p += k as usize;
            ((g as u128) << k) + f
        }
        Code::MinBin(u) => {
            let l = ilog2_128(u as u128) as usize;
            if !avail(p, l) {
                return None;
            }
            let (r, ml) = dec_minbin(b, p, u as u128, e);
            if !avail(p, ml) {
                return None;
            }
            p += ml;
            r
        }
        Code::VByteBe | Code::VByteLe => {
            let mut bytes = Vec::new();
            loop {
                if !avail(p, 8) || bytes.len() >= 10 {
                    return None;
                }
                let by = b.field(p, 8, e) as u8;
                p += 8;
                bytes.push(by);
                if by & 0x80 == 0 {
                    break;
                }
            }
            vbyte_value(&bytes, c == Code::VByteBe)
        }
    };
    if v > c.max_value() as u128 {
        return None;
    }
    Some((v as u64, p - pos))
}
