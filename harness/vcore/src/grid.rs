//! Value / parameter grids biased to the places where codes change shape.

use crate::refcodes::Code;

/// Largest unary part generated (D1): "several words" even for 128-bit words, cheap to run.
pub const UNARY_CAP: u64 = 600;

/// SplitMix64: a tiny deterministic PRNG for bulk grids (every use is seeded from VERIF_SEED
/// and the failing case itself is written to the replay file, so runs are reproducible).
#[derive(Clone)]
pub struct Rng(pub u64);
impl Rng {
    pub fn new(seed: u64) -> Self {
        Rng(seed.wrapping_mul(0x9E3779B97F4A7C15) ^ 0xD1B54A32D192ED03)
    }
    pub fn next(&mut self) -> u64 {
        self.0 = self.0.wrapping_add(0x9E3779B97F4A7C15);
        let mut z = self.0;
        z = (z ^ (z >> 30)).wrapping_mul(0xBF58476D1CE4E5B9);
        z = (z ^ (z >> 27)).wrapping_mul(0x94D049BB133111EB);
        z ^ (z >> 31)
    }
    pub fn below(&mut self, n: u64) -> u64 {
        if n == 0 {
            0
        } else {
            ((self.next() as u128 * n as u128) >> 64) as u64
        }
    }
    /// A 64-bit value whose magnitude is uniform over bit lengths.
    pub fn mag(&mut self) -> u64 {
        let bits = self.below(65);
        if bits == 0 {
            0
        } else {
            let v = self.next() >> (64 - bits);
            v | (1 << (bits - 1))
        }
    }
}

pub const SMALL_KS: &[u32] = &[0, 1, 2, 3, 4, 5, 6, 7, 8, 9, 10, 11, 12, 15, 16, 17, 31, 32, 33, 62, 63];
pub const GOLOMB_BS: &[u64] = &[
    1, 2, 3, 4, 5, 6, 7, 8, 9, 10, 11, 12, 13, 15, 16, 17, 19, 20, 31, 32, 33, 63, 64, 65, 100, 127, 128, 129, 1000,
    (1 << 20) - 1, 1 << 20, (1 << 20) + 1, (1 << 32) - 1, 1 << 32, (1 << 32) + 1, (1 << 62) + 12345, (1 << 63) - 1,
    1 << 63, (1 << 63) + 1, u64::MAX - 1, u64::MAX,
];

pub fn all_codes_small() -> Vec<Code> {
    let mut v = vec![Code::Unary, Code::Gamma, Code::Delta, Code::Omega, Code::VByteBe, Code::VByteLe];
    for &k in SMALL_KS {
        if k >= 1 {
            v.push(Code::Zeta(k));
        }
        v.push(Code::Pi(k));
        v.push(Code::Rice(k));
        v.push(Code::ExpGolomb(k));
    }
    for &b in GOLOMB_BS {
        v.push(Code::Golomb(b));
        v.push(Code::MinBin(b));
    }
    v
}

/// Fold an arbitrary 64-bit candidate into the generated domain of `c` (D5, D1) by construction.
pub fn fold(c: Code, v: u64) -> u64 {
    let mut v = v;
    let m = c.max_value();
    if v > m {
        v = if m == u64::MAX { v } else { v % (m + 1) };
    }
    match c {
        Code::Unary => v % (UNARY_CAP + 1),
        Code::Rice(k) => {
            if (v >> k) > UNARY_CAP {
                let q = (v >> k) % (UNARY_CAP + 1);
                let r = if k == 0 { 0 } else { v & (u64::MAX >> (64 - k)) };
                (q << k) | r
            } else {
                v
            }
        }
        Code::Golomb(b) => {
            if v / b > UNARY_CAP {
                (v / b % (UNARY_CAP + 1)) * b + v % b
            } else {
                v
            }
        }
        _ => v,
    }
}

/// The value grid for one code: all values below `n_small`, every 2^i-1, 2^i, 2^i+1, the
/// domain maxima, the neighbourhood of the code's own shape changes, and `n_rand` random values of
/// all magnitudes; everything folded into the domain.
pub fn values_for(c: Code, n_small: u64, seed: u64) -> Vec<u64> {
    values_for_n(c, n_small, 64, seed)
}

pub fn values_for_n(c: Code, n_small: u64, n_rand: usize, seed: u64) -> Vec<u64> {
    let mut out: Vec<u64> = Vec::new();
    for v in 0..n_small {
        out.push(v);
    }
    for i in 0..64u32 {
        let p = 1u64 << i;
        out.extend_from_slice(&[p.wrapping_sub(2), p - 1, p, p + 1, p + 2]);
    }
    let m = c.max_value();
    out.extend_from_slice(&[m, m.saturating_sub(1), m.saturating_sub(2), m / 2, m / 2 + 1]);
    match c {
        Code::Golomb(b) | Code::MinBin(b) => {
            let l = 63 - b.leading_zeros();
            let limit = ((1u128 << (l + 1)) - b as u128) as u64;
            for d in [limit.wrapping_sub(1), limit, limit.wrapping_add(1)] {
                out.push(d);
                if let Code::Golomb(_) = c {
                    for q in [1u64, 2, 7] {
                        out.push(q.wrapping_mul(b).wrapping_add(d));
                    }
                }
            }
            out.extend_from_slice(&[b - 1, b, b.wrapping_add(1), b.wrapping_mul(2).wrapping_sub(1), b.wrapping_mul(2)]);
        }
        Code::VByteBe | Code::VByteLe => {
            let mut off = 0u128;
            for l in 1..=9u32 {
                off += 1u128 << (7 * l);
                if off <= u64::MAX as u128 {
                    let o = off as u64;
                    out.extend_from_slice(&[o - 2, o - 1, o, o + 1, o + 2]);
                }
            }
        }
        Code::Zeta(k) => {
            // interval ends 2^(hk) - 1 and the minimal-binary limit inside each interval
            let mut h = 0;
            while h * k <= 63 {
                let left = 1u128 << (h * k);
                let u = crate::refcodes::zeta_bound(h, k, true);
                let l = 127 - u.leading_zeros();
                let limit = (1u128 << (l + 1)) - u;
                for d in [left - 1, left + limit - 1, left + limit, left + limit + 1] {
                    if d >= 1 && d - 1 <= u64::MAX as u128 {
                        out.push((d - 1) as u64);
                    }
                }
                h += 1;
            }
        }
        _ => {}
    }
    let mut r = Rng::new(seed ^ c.param().wrapping_mul(0x1234567) ^ (c.family().len() as u64) << 40);
    for _ in 0..n_rand {
        out.push(r.mag());
    }
    for _ in 0..n_rand / 4 {
        out.push(r.next());
    }
    let mut out: Vec<u64> = out.into_iter().map(|v| fold(c, v)).collect();
    out.sort_unstable();
    out.dedup();
    out
}
