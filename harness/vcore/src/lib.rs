pub mod bits;
pub mod grid;
pub mod refcodes;
pub mod selftest;
pub mod engine;

pub use bits::{BitVec, En};
pub use refcodes::Code;
