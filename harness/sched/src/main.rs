//! C15, concurrent part, with the harness owning the schedule.
//!
//! The library is built with `--cfg dsi_bitstream_verif`, which (through a 3-line hook in
//! src/utils/stats.rs) makes `CodesStatsWrapper` use `shuttle::sync::Mutex`. Every lock / unlock /
//! spawn / join is then a scheduling point decided by shuttle's schedulers: depth-first search
//! enumerates ALL interleavings of small cases, the random and PCT schedulers sample larger ones,
//! all seeded (reproducible), and a failing schedule is written to the replay file.

#[cfg(not(dsi_bitstream_verif))]
compile_error!("build with RUSTFLAGS=\"--cfg dsi_bitstream_verif\" (see /verif/check)");

use dsi_bitstream::prelude::*;
use dsi_bitstream::utils::stats::CodesStatsWrapper;
use serde::{Deserialize, Serialize};
use shuttle::scheduler::{DfsScheduler, PctScheduler, RandomScheduler};
use shuttle::{Config, FailurePersistence, Runner};
use std::sync::atomic::{AtomicU64, Ordering};
use std::sync::Arc;
use vcore::engine::*;
use vcore::refcodes;
use vcore::Code;

#[derive(Clone, Copy, PartialEq, Eq, Hash, Debug, Serialize, Deserialize)]
pub enum Sched {
    /// depth-first enumeration of every interleaving (bounded by max iterations)
    Dfs,
    Random,
    Pct,
}

#[derive(Clone, PartialEq, Eq, Hash, Debug, Serialize, Deserialize)]
pub struct Case {
    /// values each thread observes through the shared wrapper; `true` = through a write, `false` = through a read
    pub threads: Vec<Vec<(u64, bool)>>,
    pub sched: Sched,
    pub iterations: u32,
    pub seed: u64,
}

fn ref_total(vals: &[u64], code: Code) -> u128 {
    vals.iter().map(|&v| refcodes::len(code, v) as u128).sum()
}

/// one execution of the scenario under shuttle's control; panics on a wrong statistic
fn scenario(threads: &[Vec<(u64, bool)>]) {
    let w = Arc::new(CodesStatsWrapper::<Codes>::new(Codes::Delta));
    let mut hs = vec![];
    for t in threads {
        let w = w.clone();
        let t = t.clone();
        hs.push(shuttle::thread::spawn(move || {
            // values to be read back are pre-written without the wrapper
            let mut pre = BufBitWriter::<LE, _>::new(MemWordWriterVec::new(Vec::<u64>::new()));
            for &(v, is_write) in &t {
                if !is_write {
                    Codes::Delta.write(&mut pre, v).unwrap();
                }
            }
            let words = pre.into_inner().unwrap().into_inner();
            let mut rd = BufBitReader::<LE, _>::new(MemWordReader::new_strict(&words[..]));
            let mut wr = BufBitWriter::<LE, _>::new(MemWordWriterVec::new(Vec::<u64>::new()));
            for &(v, is_write) in &t {
                if is_write {
                    DynamicCodeWrite::write(&*w, &mut wr, v).unwrap();
                } else {
                    let got = DynamicCodeRead::read(&*w, &mut rd).unwrap();
                    assert_eq!(got, v, "wrapper read a different value");
                }
            }
        }));
    }
    for h in hs {
        h.join().unwrap();
    }
    let st = *w.stats().lock().unwrap();
    let all: Vec<u64> = threads.iter().flatten().map(|x| x.0).collect();
    assert_eq!(st.total as u128, all.len() as u128, "element count after all threads finished");
    assert_eq!(st.unary as u128, all.iter().map(|&v| v as u128 + 1).sum::<u128>(), "unary total");
    assert_eq!(st.gamma as u128, ref_total(&all, Code::Gamma), "gamma total");
    assert_eq!(st.delta as u128, ref_total(&all, Code::Delta), "delta total");
    assert_eq!(st.omega as u128, ref_total(&all, Code::Omega), "omega total");
    assert_eq!(st.vbyte as u128, ref_total(&all, Code::VByteBe), "vbyte total");
    for i in 0..10 {
        assert_eq!(st.zeta[i] as u128, ref_total(&all, Code::Zeta(i as u32 + 1)), "zeta[{}]", i);
        assert_eq!(st.rice[i] as u128, ref_total(&all, Code::Rice(i as u32)), "rice[{}]", i);
        assert_eq!(st.exp_golomb[i] as u128, ref_total(&all, Code::ExpGolomb(i as u32)), "exp_golomb[{}]", i);
        assert_eq!(st.pi[i] as u128, ref_total(&all, Code::Pi(i as u32 + 2)), "pi[{}]", i);
    }
    for i in 0..20 {
        assert_eq!(st.golomb[i] as u128, ref_total(&all, Code::Golomb(i as u64 + 1)), "golomb[{}]", i);
    }
}

static SCHEDULES: AtomicU64 = AtomicU64::new(0);

fn check_case(c: &Case, sched_dir: &str) -> CheckResult {
    let mut cfg = Config::new();
    // the schedulers are seeded, so (case, scheduler, seed, iterations) reproduces a failing schedule exactly
    cfg.failure_persistence = FailurePersistence::None;
    let _ = sched_dir;
    let threads = c.threads.clone();
    let f = move || scenario(&threads);
    let iters = c.iterations as usize;
    let r = guarded(|| match c.sched {
        Sched::Dfs => Runner::new(DfsScheduler::new(Some(iters), false), cfg).run(f),
        Sched::Random => Runner::new(RandomScheduler::new_from_seed(c.seed, iters), cfg).run(f),
        Sched::Pct => Runner::new(PctScheduler::new_from_seed(c.seed, 3, iters), cfg).run(f),
    });
    match r {
        Ok(n) => {
            SCHEDULES.fetch_add(n as u64, Ordering::Relaxed);
            let mut o = Outcome::new();
            o.units = n as u64;
            if c.threads.len() >= 2 && c.threads.iter().filter(|t| !t.is_empty()).count() >= 2 {
                o.nt("two_or_more_threads_update");
            }
            match c.sched {
                Sched::Dfs => {
                    if n < iters {
                        o.label("dfs_all_interleavings_enumerated");
                    } else {
                        o.label("dfs_bounded");
                    }
                }
                Sched::Random => o.label("random_schedules"),
                Sched::Pct => o.label("pct_schedules"),
            }
            Ok(o)
        }
        Err(p) => Err(Failure::new(
            "threads/schedule",
            format!("under a {:?} schedule (seed {}, {} iterations) the statistics differ from the sequential reference: {}", c.sched, c.seed, c.iterations, p),
        )),
    }
}

fn gen_case(s: &mut Src, sched: Sched, iterations: u32) -> Case {
    let t = s.range(2, 4);
    let threads = (0..t)
        .map(|_| {
            let k = s.range(1, 4);
            (0..k)
                .map(|_| {
                    let v = match s.weighted(&[3, 2, 1]) {
                        0 => s.below(300) as u64,
                        1 => s.near_pow2() & ((1 << 40) - 1),
                        _ => s.mag64() >> 24,
                    };
                    (v, s.below(4) != 0)
                })
                .collect()
        })
        .collect();
    Case { threads, sched, iterations, seed: s.u16() as u64 }
}

const RULE: &str = "Cases are (2..=4 threads, each observing 1..=4 values through one shared CodesStatsWrapper, by writes or reads, \
scheduler, iteration budget, seed), executed under shuttle with the library built with --cfg dsi_bitstream_verif so that the wrapper's \
mutex is a scheduling point owned by the harness. Enumerated part: all shapes of 2 threads x 1..=2 updates and 3 threads x 1 update under \
depth-first search, which visits EVERY interleaving (label dfs_all_interleavings_enumerated when the search finished within its budget). \
Random part: proptest byte strings decoded into larger cases, explored by seeded random and PCT (depth 3) schedulers. Oracle: after all \
threads have joined, every tracked total and the element count equal the sequential reference totals (order independent by construction). \
Non-trivial: at least two threads perform updates; elementary_checks counts schedules executed; distinct = distinct case hashes.";

fn main() {
    let args: Vec<String> = std::env::args().collect();
    let get = |k: &str| args.iter().position(|a| a == k).and_then(|i| args.get(i + 1)).cloned();
    silence_panics();
    if std::env::var("VPROP_STDERR").is_err() {
        // shuttle reports every failing iteration on stderr; the verdict lines go to stdout
        unsafe {
            let fd = libc::open(b"/dev/null\0".as_ptr() as *const libc::c_char, libc::O_WRONLY);
            if fd >= 0 {
                libc::dup2(fd, 2);
            }
        }
    }
    let verif = std::env::var("VERIF_DIR").unwrap_or_else(|_| "/verif".into());
    let tier = if get("--tier").as_deref() == Some("thorough") { Tier::Thorough } else { Tier::Quick };
    let seed: u64 = get("--seed").and_then(|s| s.parse().ok()).unwrap_or(0);
    let sched_dir = format!("{}/replays/schedules", verif);
    let _ = std::fs::create_dir_all(&sched_dir);
    if let Some(path) = get("--replay") {
        let txt = std::fs::read_to_string(&path).expect("replay file");
        let v: serde_json::Value = serde_json::from_str(&txt).expect("json");
        let c: Case = serde_json::from_value(v.get("case").cloned().unwrap_or(v)).expect("case");
        match run_guarded(&c, &|c: &Case| check_case(c, &sched_dir)) {
            Ok(_) => {
                println!("replay {}: property holds on this case under the deterministic scheduler", path);
                std::process::exit(0)
            }
            Err(f) => {
                println!("VIOLATION property=C15 replay={}", path);
                println!("  build=shuttle signature={}\n  {}", f.sig, f.msg);
                std::process::exit(1)
            }
        }
    }
    let out = get("--out").unwrap_or_else(|| format!("{}/evidence/parts/C15-shuttle.json", verif));
    let ctx = Ctx { property: "C15".into(), tier, seed, build: "release+shuttle".into(), replay_dir: format!("{}/replays", verif) };
    let t0 = std::time::Instant::now();
    let mut jobs: Vec<Job> = vec![];
    let sd = sched_dir.clone();
    jobs.push(Box::new(move |ctx: &Ctx| {
        let mut part = Part::new(ctx, "shuttle/dfs", "small shapes, every interleaving by depth-first search", true);
        let f = |c: &Case| check_case(c, &sd);
        let vals = [0u64, 5, 63, 300, 1 << 20];
        let mut k = 0usize;
        let mut shapes: Vec<Vec<usize>> = vec![vec![1, 1], vec![2, 1], vec![2, 2], vec![1, 1, 1]];
        if !ctx.quick() {
            shapes.extend([vec![3, 2], vec![2, 1, 1], vec![3, 3]]);
        }
        for shape in shapes {
            for variant in 0..4 {
                let threads = shape
                    .iter()
                    .map(|&n| {
                        (0..n)
                            .map(|_| {
                                k += 1;
                                (vals[k % vals.len()], (k + variant) % 3 != 0)
                            })
                            .collect()
                    })
                    .collect();
                part.check(&Case { threads, sched: Sched::Dfs, iterations: ctx.t(20_000, 400_000), seed: 0 }, &f);
            }
        }
        part.finish()
    }));
    let n_rand = ctx.t(150u64, 3000);
    for j in 0..8 {
        let sd = sched_dir.clone();
        jobs.push(Box::new(move |ctx: &Ctx| {
            let mut part = Part::new(ctx, format!("shuttle/random/{}", j), "proptest byte strings decoded into cases; random and PCT schedulers", false);
            let sched = if j % 2 == 0 { Sched::Random } else { Sched::Pct };
            let iters = ctx.t(200, 1000);
            part.random(n_rand, 120, &|s: &mut Src| gen_case(s, sched, iters), &|c: &Case| check_case(c, &sd));
            part.finish()
        }));
    }
    let stats = run_jobs(&ctx, jobs);
    let wall = t0.elapsed().as_secs_f64();
    let rc = conclude(
        &ctx,
        stats,
        RULE,
        &["the hook only swaps the mutex type: with the guard off the library is byte-identical", "shuttle explores interleavings at synchronisation points (lock, unlock, spawn, join), which is where a data-race-free program can interleave"],
        wall,
        &out,
        &format!("{}/known_findings.json", verif),
    );
    std::process::exit(rc);
}
