pub mod adapters;
pub mod c01;
pub mod c02;
pub mod c03;
pub mod c05;
pub mod c06;
pub mod c10;
pub mod c11;
pub mod c12;
pub mod c13;
pub mod c14;
pub mod c15;
pub mod c16;
pub mod c17;
pub mod c18;
pub mod c19;
pub mod c20;
pub mod dispatch;
pub mod c07;
pub mod c08;
pub mod c09;
pub mod calls;
pub mod gen;
pub mod ops;
pub mod streams;

use ops::TableDomain;
use std::collections::BTreeMap;
use std::io::Read as _;
use vcore::engine::{CheckResult, Ctx, Stats, Tier};

/// Facts about this build and this tree measured at start-up.
pub struct Env {
    /// D7: which decoding tables each reader kind may use (from the library's own diagnostics)
    pub tables: TableDomain,
    pub checks: bool,
    pub no_copy_impls: bool,
    pub debug_assertions: bool,
}

pub struct PropDef {
    pub id: &'static str,
    pub rule: &'static str,
    pub assumptions: &'static [&'static str],
    pub run: fn(&Ctx, &Env) -> Stats,
    pub replay: fn(&serde_json::Value, &Env) -> CheckResult,
    /// decode a libFuzzer input with the property's generator and check it (fuzz crash replay)
    pub from_bytes: Option<fn(&[u8], &Env) -> (serde_json::Value, CheckResult)>,
}

pub fn all_props() -> Vec<&'static PropDef> {
    vec![&c01::DEF, &c02::DEF, &c03::DEF, &c03::DEF04, &c05::DEF, &c06::DEF, &c10::DEF, &c11::DEF, &c12::DEF, &c13::DEF, &c14::DEF, &c15::DEF, &c16::DEF, &c17::DEF, &c18::DEF, &c19::DEF, &c20::DEF, &c07::DEF, &c08::DEF, &c09::DEF]
}

pub fn build_name() -> String {
    let mut s = if cfg!(debug_assertions) { "chk".to_string() } else { "release".to_string() };
    if cfg!(feature = "checks") {
        s.push_str("+checks");
    }
    if cfg!(feature = "no_copy_impls") {
        s.push_str("+no_copy_impls");
    }
    s
}

/// Child mode: construct every reader kind once so that the library prints its
/// insufficient-look-ahead diagnostics, bracketed by markers.
pub fn probe_diag_child() {
    use calls::*;
    use vcore::En;
    for r in RKind::ALL {
        eprintln!("@@READER {}", r.name());
        for e in En::ALL {
            let bytes = vec![0u8; 16];
            adapters::with_reader(RCfg::new(e, r, RBackend::InfOwned), &bytes, &mut |_rd| {});
        }
        eprintln!("@@END");
    }
}

/// D7, measured in-process: fd 2 is temporarily redirected into a pipe while every reader kind is
/// constructed once, and the library's DANGER diagnostics are parsed from it.
pub fn measure_tables() -> Result<TableDomain, String> {
    use std::os::fd::FromRawFd;
    static LOCK: std::sync::Mutex<()> = std::sync::Mutex::new(());
    let _g = LOCK.lock().unwrap();
    let txt = unsafe {
        let mut fds = [0i32; 2];
        if libc::pipe(fds.as_mut_ptr()) != 0 {
            return Err("pipe failed".into());
        }
        let saved = libc::dup(2);
        if saved < 0 || libc::dup2(fds[1], 2) < 0 {
            return Err("dup failed".into());
        }
        libc::close(fds[1]);
        probe_diag_child();
        libc::dup2(saved, 2);
        libc::close(saved);
        let mut f = std::fs::File::from_raw_fd(fds[0]);
        let mut txt = String::new();
        f.read_to_string(&mut txt).map_err(|e| e.to_string())?;
        txt
    };
    let mut allowed: BTreeMap<String, Vec<String>> = BTreeMap::new();
    let mut cur: Option<String> = None;
    let mut denied: Vec<&str> = vec![];
    for line in txt.lines() {
        if let Some(n) = line.strip_prefix("@@READER ") {
            cur = Some(n.trim().to_string());
            denied.clear();
        } else if line.starts_with("@@END") {
            if let Some(n) = cur.take() {
                let v: Vec<String> = ["gamma", "delta", "zeta"].iter().filter(|t| !denied.contains(t)).map(|s| s.to_string()).collect();
                allowed.insert(n, v);
            }
        } else if cur.is_some() && !line.trim().is_empty() {
            // anything a reader prints while it is constructed is taken as a look-ahead diagnostic, whatever its
            // wording; the table is recognised by the code's letter or name
            let l = line.to_lowercase();
            let mut any = false;
            for (keys, t) in [(["γ", "gamma"], "gamma"), (["δ", "delta"], "delta"), (["ζ", "zeta"], "zeta")] {
                if keys.iter().any(|k| l.contains(k)) {
                    denied.push(t);
                    any = true;
                }
            }
            if !any {
                // an unrecognised diagnostic: be conservative, deny everything for this reader
                denied.extend(["gamma", "delta", "zeta"]);
            }
        }
    }
    if allowed.len() != calls::RKind::ALL.len() {
        return Err(format!("probe output incomplete: {:?}", allowed));
    }
    Ok(TableDomain { allowed })
}

/// The environment of a fuzz target (no command line).
pub fn fuzz_env() -> Env {
    vcore::engine::silence_panics();
    let tables = measure_tables().expect("table domain");
    if std::env::var("VPROP_STDERR").is_err() {
        // the library prints a diagnostic on every construction of a u8 reader: fd 2 is discarded
        // (libFuzzer's progress lines go with it; crash artifacts and the exit status remain)
        unsafe {
            let fd = libc::open(b"/dev/null\0".as_ptr() as *const libc::c_char, libc::O_WRONLY);
            if fd >= 0 {
                libc::dup2(fd, 2);
            }
        }
    }
    Env { tables, checks: cfg!(feature = "checks"), no_copy_impls: cfg!(feature = "no_copy_impls"), debug_assertions: cfg!(debug_assertions) }
}

pub fn main_entry() -> i32 {
    let args: Vec<String> = std::env::args().collect();
    if args.iter().any(|a| a == "--probe-diag") {
        probe_diag_child();
        return 0;
    }
    let get = |k: &str| args.iter().position(|a| a == k).and_then(|i| args.get(i + 1)).cloned();
    let Some(id) = args.get(1).cloned() else {
        eprintln!("usage: vprop <ID> --tier quick|thorough --seed N --out part.json [--replay file]");
        return 2;
    };
    if id == "--build-name" {
        println!("{}", build_name());
        return 0;
    }
    let props = all_props();
    let Some(def) = props.iter().find(|p| p.id == id) else {
        println!("unknown property {}", id);
        return 2;
    };
    vcore::engine::silence_panics();
    if std::env::var("VPROP_STDERR").is_err() {
        // the library prints a diagnostic on every construction of some readers, and the tracing
        // wrappers print every operation: discard fd 2 (our own messages go to stdout)
        unsafe {
            let fd = libc::open(b"/dev/null\0".as_ptr() as *const libc::c_char, libc::O_WRONLY);
            if fd >= 0 {
                libc::dup2(fd, 2);
            }
        }
    }
    if let Err(e) = vcore::selftest::run() {
        println!("REFERENCE SELF-TEST FAILED (the check is broken, not the library): {}", e);
        return 2;
    }
    let tables = match measure_tables() {
        Ok(t) => t,
        Err(e) => {
            println!("cannot measure the table domain: {}", e);
            return 2;
        }
    };
    let env = Env { tables, checks: cfg!(feature = "checks"), no_copy_impls: cfg!(feature = "no_copy_impls"), debug_assertions: cfg!(debug_assertions) };
    let verif = std::env::var("VERIF_DIR").unwrap_or_else(|_| "/verif".into());
    if let Some(path) = get("--replay") {
        let raw = match std::fs::read(&path) {
            Ok(t) => t,
            Err(e) => {
                println!("cannot read {}: {}", path, e);
                return 2;
            }
        };
        let as_json = std::str::from_utf8(&raw).ok().and_then(|t| serde_json::from_str::<serde_json::Value>(t).ok()).filter(|v| v.is_object());
        if as_json.is_none() {
            // a libFuzzer input: decode it with the property's generator
            let Some(fb) = def.from_bytes else {
                println!("{} is not a replay file and {} has no fuzz target", path, def.id);
                return 2;
            };
            let (case, res) = fb(&raw, &env);
            println!("decoded fuzz input {} as case {}", path, case);
            return match res {
                Ok(_) => {
                    println!("replay {}: property holds on this case in build {}", path, build_name());
                    0
                }
                Err(f) => {
                    println!("VIOLATION property={} replay={}", def.id, path);
                    println!("  build={} signature={}", build_name(), f.sig);
                    println!("  {}", f.msg);
                    1
                }
            };
        }
        let txt = String::from_utf8_lossy(&raw).to_string();
        let v: serde_json::Value = match serde_json::from_str(&txt) {
            Ok(v) => v,
            Err(e) => {
                println!("cannot parse {}: {}", path, e);
                return 2;
            }
        };
        let case = v.get("case").cloned().unwrap_or(v.clone());
        return match (def.replay)(&case, &env) {
            Ok(_) => {
                println!("replay {}: property holds on this case in build {}", path, build_name());
                0
            }
            Err(f) => {
                println!("VIOLATION property={} replay={}", def.id, path);
                println!("  build={} signature={}", build_name(), f.sig);
                println!("  {}", f.msg);
                1
            }
        };
    }
    let tier = match get("--tier").as_deref() {
        Some("thorough") => Tier::Thorough,
        _ => Tier::Quick,
    };
    let seed: u64 = get("--seed").and_then(|s| s.parse().ok()).unwrap_or(0);
    let out = get("--out").unwrap_or_else(|| format!("{}/evidence/parts/{}-{}.json", verif, id, build_name()));
    let ctx = Ctx { property: id.clone(), tier, seed, build: build_name(), replay_dir: format!("{}/replays", verif) };
    let t0 = std::time::Instant::now();
    // regression corpus: every saved failing input of this property is re-executed first
    let mut corpus_stats = Stats::default();
    {
        let dir = format!("{}/corpus/{}", verif, id);
        let mut files: Vec<_> = std::fs::read_dir(&dir).map(|d| d.filter_map(|e| e.ok()).map(|e| e.path()).collect()).unwrap_or_default();
        files.sort();
        let mut part = vcore::engine::Part::new(&ctx, "corpus", "saved failing inputs (defects repaired in /repo, seeded changes) re-executed first", true);
        for f in files {
            let Ok(txt) = std::fs::read_to_string(&f) else { continue };
            let Ok(v) = serde_json::from_str::<serde_json::Value>(&txt) else { continue };
            let case = v.get("case").cloned().unwrap_or(v.clone());
            let name = f.file_name().map(|n| n.to_string_lossy().to_string()).unwrap_or_default();
            let wrapped = serde_json::json!({"corpus_file": name, "case": case});
            part.check(&wrapped, &|w: &serde_json::Value| match (def.replay)(&w["case"], &env) {
                Ok(mut o) => {
                    o.nontrivial = true;
                    o.label("corpus_case");
                    Ok(o)
                }
                // a corpus file that this binary cannot decode (written by another harness binary or by an older
                // case format) says nothing about the library: it is skipped and counted, never reported
                Err(f) if f.sig.starts_with("replay/parse") => {
                    let mut o = vcore::engine::Outcome::new();
                    o.label("corpus_file_not_decodable_skipped");
                    Ok(o)
                }
                Err(f) => Err(f),
            });
        }
        corpus_stats.merge(part.finish());
    }
    let stats = match vcore::engine::guarded(|| (def.run)(&ctx, &env)) {
        Ok(s) => s,
        Err(p) => {
            println!("HARNESS-PANIC property={} (the check is broken, not the library): {}", id, p);
            return 2;
        }
    };
    let wall = t0.elapsed().as_secs_f64();
    let mut stats = stats;
    stats.merge(corpus_stats);
    stats.notes.push(format!("table domain measured from diagnostics: {:?}", env.tables.allowed));
    vcore::engine::conclude(&ctx, stats, def.rule, def.assumptions, wall, &out, &format!("{}/known_findings.json", verif))
}
