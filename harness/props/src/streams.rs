//! Stream descriptions: how the data a reader sees is constructed (always with the reference
//! encoders and the bit model, never with the library), and the shared reader-case type.

use crate::calls::*;
use crate::gen::*;
use crate::ops::*;
use crate::Env;
use serde::{Deserialize, Serialize};
use std::collections::BTreeMap;
use vcore::engine::{Failure, Src};
use vcore::grid::Rng;
use vcore::refcodes;
use vcore::{BitVec, Code, En};

#[derive(Clone, PartialEq, Eq, Hash, Debug, Serialize, Deserialize)]
pub enum Item {
    Raw { v: u64, n: u8 },
    Unary(u64),
    Coded { code: Code, v: u64 },
    Zeros(u32),
    Ones(u32),
    /// `n` raw bits `bits` (laid out so that a peek of n bits returns them), registered as a
    /// position where a codeword of `code` starts (used to present a chosen look-ahead window)
    Window { code: Code, bits: u64, n: u8 },
}

#[derive(Clone, Copy, PartialEq, Eq, Hash, Debug, Serialize, Deserialize)]
pub enum Pat {
    Random,
    Ones,
    Zeros,
    /// all zeros except single one bits every `period` bits
    Sparse,
    Alternating,
}

#[derive(Clone, PartialEq, Eq, Hash, Debug, Serialize, Deserialize)]
pub enum Img {
    /// explicit bytes
    Bytes(Vec<u8>),
    /// `bits` bits of a pattern (seeded), optionally with one extra one bit forced at `one_at`
    /// and everything before it from `zero_from` cleared
    Pattern { pat: Pat, bits: u32, seed: u64, zero_from: Option<u32>, one_at: Option<u32> },
    /// reference-encoded items followed by `tail` pattern bits
    Items { items: Vec<Item>, tail: Pat, tail_bits: u32, seed: u64 },
}

pub struct Built {
    /// data bits, padded with zeros to a multiple of the reader word
    pub model: BitVec,
    pub starts: BTreeMap<usize, Code>,
    /// (start, end) of every item, in stream order
    pub spans: Vec<(usize, usize)>,
    /// number of bits before padding
    pub data_bits: usize,
}

fn push_pattern(m: &mut BitVec, pat: Pat, bits: usize, seed: u64) {
    let mut r = Rng::new(seed);
    let period = 5 + (seed % 61) as usize;
    let mut word = 0u64;
    for i in 0..bits {
        if i % 64 == 0 {
            word = r.next();
        }
        let b = match pat {
            Pat::Random => (word >> (i % 64)) & 1 == 1,
            Pat::Ones => true,
            Pat::Zeros => false,
            Pat::Sparse => i % period == period - 1,
            Pat::Alternating => i % 2 == 0,
        };
        m.push(b);
    }
}

impl Img {
    pub fn build(&self, e: En, word_bits: usize, cut_words: Option<u32>) -> Built {
        let mut m = BitVec::new();
        let mut starts = BTreeMap::new();
        let mut spans = vec![];
        match self {
            Img::Bytes(b) => m = BitVec::from_bytes(b, e),
            Img::Pattern { pat, bits, seed, zero_from, one_at } => {
                push_pattern(&mut m, *pat, *bits as usize, *seed);
                if let Some(zf) = zero_from {
                    let upto = one_at.map(|o| o as usize).unwrap_or(m.len()).min(m.len());
                    for i in (*zf as usize).min(upto)..upto {
                        m.bits[i] = false;
                    }
                }
                if let Some(o) = one_at {
                    if (*o as usize) < m.len() {
                        m.bits[*o as usize] = true;
                    }
                }
            }
            Img::Items { items, tail, tail_bits, seed } => {
                for it in items {
                    let st = m.len();
                    match it {
                        Item::Raw { v, n } => m.push_field((*v & mask64(*n as usize)) as u128, *n as usize, e),
                        Item::Unary(x) => {
                            starts.insert(st, Code::Unary);
                            m.push_unary(*x)
                        }
                        Item::Coded { code, v } => {
                            starts.insert(st, *code);
                            refcodes::encode(*code, *v, e, &mut m)
                        }
                        Item::Window { code, bits, n } => {
                            starts.insert(st, *code);
                            m.push_field((*bits & mask64(*n as usize)) as u128, *n as usize, e)
                        }
                        Item::Zeros(n) => m.push_zeros(*n as usize),
                        Item::Ones(n) => {
                            for _ in 0..*n {
                                m.push(true);
                            }
                        }
                    }
                    spans.push((st, m.len()));
                }
                push_pattern(&mut m, *tail, *tail_bits as usize, *seed);
            }
        }
        let data_bits = m.len();
        m.pad_to(word_bits);
        if let Some(c) = cut_words {
            let keep = (c as usize * word_bits).min(m.len());
            m.truncate(keep);
        }
        Built { model: m, starts, spans, data_bits }
    }
}

/// The shared reader case: a reader configuration, a constructed image (optionally truncated
/// after `cut_words` reader words) and a history.
#[derive(Clone, PartialEq, Eq, Hash, Debug, Serialize, Deserialize)]
pub struct RCase {
    pub cfg: RCfg,
    pub img: Img,
    pub cut_words: Option<u32>,
    pub ops: Vec<ROp>,
    /// gamma and zeta_3 reads may be issued at any position (self-synchronising data): the reference decoder
    /// decides at run time whether a complete in-domain codeword starts there
    #[serde(default)]
    pub free: bool,
}

pub fn check_rcase(c: &RCase, env: &Env) -> Result<(RNotes, Built), Failure> {
    let b = c.img.build(c.cfg.e, c.cfg.r.word().bits(), c.cut_words);
    const FREE: [Code; 2] = [Code::Gamma, Code::Zeta(3)];
    let s = RStream { cfg: c.cfg, model: &b.model, starts: &b.starts, tables: &env.tables, free_codes: if c.free { &FREE } else { &[] } };
    let _allow = crate::adapters::FuseAllowance::for_bits(crate::adapters::rops_bits(&c.ops));
    let n = run_reader(&s, &c.ops)?;
    Ok((n, b))
}

// ---------------------------------------------------------------------------------------------
// generators
// ---------------------------------------------------------------------------------------------

pub fn gen_pat(s: &mut Src) -> Pat {
    s.pick(&[Pat::Random, Pat::Random, Pat::Ones, Pat::Zeros, Pat::Sparse, Pat::Alternating])
}

pub fn gen_rcfg(s: &mut Src, backends: &[RBackend]) -> RCfg {
    RCfg::new(gen_en(s), gen_rkind(s), s.pick(backends))
}

pub fn gen_item(s: &mut Src) -> Item {
    match s.weighted(&[6, 2, 1, 1, 1]) {
        0 => {
            let code = gen_code(s);
            Item::Coded { code, v: gen_value(s, code) }
        }
        1 => {
            let n = gen_width(s, 64);
            Item::Raw { v: s.u64() & mask64(n as usize), n }
        }
        2 => Item::Unary(gen_unary_value(s, 32)),
        3 => Item::Zeros(s.below(70) as u32),
        _ => Item::Ones(s.below(70) as u32),
    }
}

/// The read operation that consumes exactly `it` (a random table option for codes).
pub fn rop_for_item(s: &mut Src, it: &Item) -> Vec<ROp> {
    match it {
        Item::Raw { n, .. } => vec![ROp::Bits(*n)],
        Item::Unary(_) => vec![ROp::Unary],
        Item::Coded { code, .. } => vec![ROp::Code(gen_call(s, *code))],
        Item::Window { code, .. } => vec![ROp::Code(gen_call(s, *code))],
        Item::Zeros(n) | Item::Ones(n) => {
            if s.bool() {
                vec![ROp::Skip(*n)]
            } else {
                let mut v = vec![];
                let mut left = *n;
                while left > 0 {
                    let c = left.min(64);
                    v.push(ROp::Bits(c as u8));
                    left -= c;
                }
                v
            }
        }
    }
}

/// A primitive reader operation for random histories over arbitrary data.
pub fn gen_rop_prim(s: &mut Src, r: RKind, depth: usize) -> ROp {
    let w = r.word().bits();
    match s.weighted(&[6, 3, 2, 3, if depth == 0 { 1 } else { 0 }]) {
        0 => ROp::Bits(gen_width(s, w)),
        1 => ROp::Unary,
        2 => ROp::Skip(match s.weighted(&[4, 2, 1]) {
            0 => s.below(66) as u32,
            1 => (w * s.range(1, 3) + s.below(5)).saturating_sub(2) as u32,
            _ => s.below(400) as u32,
        }),
        3 => ROp::Peek(s.range(1, r.peek_max()) as u8),
        _ => {
            let n = s.range(1, 5);
            ROp::Fork((0..n).map(|_| gen_rop_prim(s, r, depth + 1)).collect())
        }
    }
}
