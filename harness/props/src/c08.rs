//! C08 — bulk copy moves exactly n bits and leaves both streams intact.

use crate::adapters::*;
use crate::c02::{n_states, state_prefix};
use crate::calls::*;
use crate::gen::*;
use crate::ops::*;
use crate::streams::*;
use crate::{Env, PropDef};
use serde::{Deserialize, Serialize};
use std::collections::BTreeMap;
use vcore::engine::*;
use vcore::grid::Rng;
use vcore::{fail, BitVec, Code, En};

#[derive(Clone, PartialEq, Eq, Hash, Debug, Serialize, Deserialize)]
pub enum Step {
    /// operation on the source reader
    R(ROp),
    /// operation on the destination writer
    W(WOp),
    /// reader.copy_to(writer, n)
    CopyTo(u64),
    /// writer.copy_from(reader, n)
    CopyFrom(u64),
}

#[derive(Clone, PartialEq, Eq, Hash, Debug, Serialize, Deserialize)]
pub struct Case {
    pub rcfg: RCfg,
    pub wcfg: WCfg,
    pub img: Img,
    pub steps: Vec<Step>,
    /// when present the case is a single very long copy (n beyond 2^32) from a zero-extended source into a counting
    /// sink, and the other fields are ignored
    #[serde(default)]
    pub huge: Option<Huge>,
}

/// `pre` bits are consumed from a buffered reader (word u32 or u64) over `words` random 64-bit words followed by
/// zeros for ever, then n bits are copied: `to` = reader.copy_to(bit sink), else writer.copy_from(reader) into a
/// BufBitWriter over a word-counting sink after `prew` bits.
#[derive(Clone, Copy, PartialEq, Eq, Hash, Debug, Serialize, Deserialize)]
pub struct Huge {
    pub e: En,
    pub r64: bool,
    pub pre: u8,
    pub prew: u8,
    pub words: u8,
    pub n: u64,
    pub to: bool,
    pub seed: u64,
}

/// A bit sink that keeps the first 256 bits and counts the rest.
struct BitSink {
    e: En,
    first: BitVec,
    total: u64,
    ones: u64,
}
macro_rules! impl_bitsink {
    ($E:ty) => {
        impl dsi_bitstream::traits::BitWrite<$E> for BitSink {
            type Error = std::convert::Infallible;
            fn write_bits(&mut self, v: u64, n: usize) -> Result<usize, Self::Error> {
                let v = v & mask64(n);
                if self.first.len() < 256 {
                    self.first.push_field(v as u128, n, self.e);
                }
                self.total += n as u64;
                self.ones += v.count_ones() as u64;
                Ok(n)
            }
            fn write_unary(&mut self, x: u64) -> Result<usize, Self::Error> {
                if self.first.len() < 256 {
                    for _ in 0..x.min(300) {
                        self.first.push(false);
                    }
                    self.first.push(true);
                }
                self.total += x + 1;
                self.ones += 1;
                Ok(x as usize + 1)
            }
            fn flush(&mut self) -> Result<usize, Self::Error> {
                Ok(0)
            }
        }
    };
}
impl_bitsink!(dsi_bitstream::traits::BE);
impl_bitsink!(dsi_bitstream::traits::LE);

/// A word sink that keeps the first 4 words and counts the rest.
pub struct WordSink {
    pub first: Vec<u64>,
    pub words: u64,
    pub ones: u64,
    pub last: u64,
}
impl dsi_bitstream::traits::WordWrite for WordSink {
    type Error = std::convert::Infallible;
    type Word = u64;
    fn write_word(&mut self, w: u64) -> Result<(), Self::Error> {
        if self.first.len() < 4 {
            self.first.push(w);
        }
        self.words += 1;
        self.ones += w.count_ones() as u64;
        self.last = w;
        Ok(())
    }
    fn flush(&mut self) -> Result<(), Self::Error> {
        Ok(())
    }
}

fn check_huge(h: &Huge) -> CheckResult {
    use dsi_bitstream::prelude::*;
    let mut o = Outcome::new();
    let mut r = Rng::new(h.seed ^ 0xC08);
    let data: Vec<u64> = (0..h.words).map(|_| r.next() | 1).collect();
    let bytes: Vec<u8> = data.iter().flat_map(|w| w.to_ne_bytes()).collect();
    let model = BitVec::from_bytes(&bytes, h.e);
    let pre = h.pre as usize;
    let bit = |i: u64| -> bool { (i as usize) < model.len() && i < model.len() as u64 && model.get(i as usize) };
    let ones_exp: u64 = (pre as u64..(pre as u64 + h.n).min(model.len() as u64)).filter(|&i| bit(i)).count() as u64;
    let what = format!("{:?}", h);
    macro_rules! go {
        ($E:ty, $W:ty) => {{
            let words: Vec<$W> = crate::adapters::words_of::<$W>(&bytes);
            let mut rd = BufBitReader::<$E, _>::new(MemWordReader::<$W, Vec<$W>>::new(words));
            if rd.read_bits(pre).is_err() {
                fail!("huge/prefix", "prefix read failed: {}", what);
            }
            if h.to {
                let mut sink = BitSink { e: h.e, first: BitVec::new(), total: 0, ones: 0 };
                if let Err(er) = rd.copy_to::<$E, _>(&mut sink, h.n) {
                    fail!("huge/copy_to/err", "{}: copy_to returned {:?}", what, er.to_string());
                }
                if sink.total != h.n {
                    fail!("huge/copy_to/total", "{}: the destination received {} bits", what, sink.total);
                }
                if sink.ones != ones_exp {
                    fail!("huge/copy_to/ones", "{}: the destination received {} one bits, the source holds {} in that range", what, sink.ones, ones_exp);
                }
                for i in 0..(sink.first.len() as u64).min(h.n).min(256) {
                    if sink.first.get(i as usize) != bit(pre as u64 + i) {
                        fail!("huge/copy_to/bits", "{}: copied bit {} differs from source bit {}", what, i, pre as u64 + i);
                    }
                }
            } else {
                let mut bw = std::mem::ManuallyDrop::new(BufBitWriter::<$E, _>::new(WordSink { first: vec![], words: 0, ones: 0, last: 0 }));
                let pw = h.prew as usize;
                let _ = bw.write_bits(mask64(pw), pw);
                if let Err(er) = bw.copy_from::<$E, _>(&mut rd, h.n) {
                    fail!("huge/copy_from/err", "{}: copy_from returned {:?}", what, er.to_string());
                }
                let bw = std::mem::ManuallyDrop::into_inner(bw);
                let sink = match bw.into_inner() {
                    Ok(s) => s,
                    Err(_) => fail!("huge/copy_from/into_inner", "{}: into_inner failed", what),
                };
                let total = pw as u64 + h.n;
                if sink.words != total.div_ceil(64) {
                    fail!("huge/copy_from/total", "{}: the destination received {} words for {} bits", what, sink.words, total);
                }
                if sink.ones != ones_exp + pw as u64 {
                    fail!("huge/copy_from/ones", "{}: the destination received {} one bits, expected {}", what, sink.ones, ones_exp + pw as u64);
                }
                let got = BitVec::from_bytes(&sink.first.iter().flat_map(|w| w.to_ne_bytes()).collect::<Vec<u8>>(), h.e);
                for i in 0..(got.len() as u64).min(total) {
                    let exp = if i < pw as u64 { true } else { bit(pre as u64 + i - pw as u64) };
                    if got.get(i as usize) != exp {
                        fail!("huge/copy_from/bits", "{}: destination bit {} is wrong", what, i);
                    }
                }
            }
            match rd.bit_pos() {
                Ok(p) if p == pre as u64 + h.n => {}
                other => fail!("huge/position", "{}: the source is at {:?} after the copy, expected {}", what, other.map_err(|e| e.to_string()), pre as u64 + h.n),
            }
        }};
    }
    match (h.e, h.r64) {
        (En::BE, true) => go!(BE, u64),
        (En::BE, false) => go!(BE, u32),
        (En::LE, true) => go!(LE, u64),
        (En::LE, false) => go!(LE, u32),
    }
    o.nt("copy_longer_than_2^32_bits");
    Ok(o)
}

pub const DEF: PropDef = PropDef {
    id: "C08",
    rule: "Cases are histories over one source reader and one destination writer of the same endianness: reader operations (reads, peeks, \
table-driven gamma/zeta_3 reads on self-synchronising random data, skips, position queries), writer operations (writes, unaries, flush) and \
copies in both directions (reader.copy_to(writer, n), writer.copy_from(reader, n)). Small-scope part, enumerated completely per pairing \
(reader {buffered u8..u64, unbuffered} x writer word u8..u128): every source buffer state (incl. more than one word buffered after a look-ahead \
refill, and the state left by a table-driven read) x destination fill levels (incl. an empty buffer holding stale bits after a full word, \
a flush or a unary code ending on the boundary) x every n in 0..=4*max(Wr,Ww)+3 x both directions, each followed \
by continuation operations on both streams (position query, table-driven code reads, a 64-bit read, a second copy, a write, flush). Random part: \
proptest byte strings decoded into histories with several copies (n up to 5000). Huge part: single copies of 2^32-1, 2^32+3, 2^32+64 and 2^33+17 bits from a \
zero-extended source into counting sinks (bit count, one count, first 256 bits, source position). Oracle: bit model: destination bytes == model, source \
position advanced by exactly n, every continuation result == model. The whole check runs in builds with the optimised copy paths compiled in \
and with --features no_copy_impls (generic chunked loop): all must equal the model. Non-trivial: n > 64, or the source held more than one \
word, or the destination word is u128, or a table-driven read follows a copy, or n is a multiple of neither word size; distinct = distinct \
case hashes.",
    assumptions: &[
        "bit model; the bridges that let a library reader copy into an object-safe writer (and vice versa) forward calls unchanged",
        "copies stay within the data on strict backends; D7 for the table-driven continuation reads",
    ],
    run,
    replay,
    from_bytes: Some(from_bytes),
};

const FREE: [Code; 2] = [Code::Gamma, Code::Zeta(3)];

pub fn check_case(c: &Case, env: &Env) -> CheckResult {
    if let Some(h) = &c.huge {
        return check_huge(h);
    }
    // zero-extended sources may legitimately be read far beyond their data by long copies
    let asked: u64 = c
        .steps
        .iter()
        .map(|st| match st {
            Step::CopyTo(n) | Step::CopyFrom(n) => *n,
            Step::R(op) => rops_bits(std::slice::from_ref(op)),
            Step::W(_) => 0,
        })
        .sum();
    let _allow = FuseAllowance::for_bits(asked);
    let e = c.rcfg.e;
    let rw = c.rcfg.r.word().bits();
    let wb = c.wcfg.w.bits();
    let built = c.img.build(e, rw, None);
    let src = &built.model;
    let l = src.len();
    let z = c.rcfg.backend.zero_ext();
    // pass 1: the destination model (sizes a fixed slice) and the domain of every copy
    let mut dst = BitVec::new();
    {
        let mut p = 0usize;
        for st in &c.steps {
            match st {
                Step::W(op) => {
                    model_wop(op, e, wb, &mut dst);
                }
                Step::CopyTo(n) | Step::CopyFrom(n) => {
                    let n = *n as usize;
                    for i in 0..n {
                        dst.push(src.get(p + i));
                    }
                    p += n;
                }
                Step::R(op) => sim_pos(op, src, e, &mut p, z),
            }
        }
    }
    dst.pad_to(wb);
    let cap_words = dst.len() / wb;
    let empty_starts = BTreeMap::new();
    let stream = RStream { cfg: c.rcfg, model: src, starts: &empty_starts, tables: &env.tables, free_codes: &FREE };
    let bytes = src.to_bytes(e);
    let mut res: Result<(), Failure> = Ok(());
    let mut notes = RNotes::default();
    let mut out = Outcome::new();
    let mut run: Option<WRun> = None;
    let mut m = BitVec::new();
    let tag = format!("{}>w{}", c.rcfg.r.name(), wb);
    let g = guarded(|| {
        with_reader(c.rcfg, &bytes, &mut |rd| {
            run = Some(with_writer(c.wcfg, cap_words, WEnd::IntoInner, &mut |w, _rec| {
                let mut p = 0usize;
                let mut copied = false;
                for (i, st) in c.steps.iter().enumerate() {
                    match st {
                        Step::R(op) => {
                            if copied && matches!(op, ROp::Code(call) if !call.read_tables().is_empty()) {
                                out.nt("table_driven_read_after_copy");
                            }
                            match exec_rops(&stream, rd, std::slice::from_ref(op), &mut p, &mut notes, 0) {
                                Ok(crate::ops::Step::Continue) => {}
                                Ok(crate::ops::Step::Stop) => return,
                                Err(mut f) => {
                                    f.sig = format!("src{}/{}", if copied { "_after_copy" } else { "" }, f.sig);
                                    f.msg = format!("step #{}: {}", i, f.msg);
                                    res = Err(f);
                                    return;
                                }
                            }
                        }
                        Step::W(op) => {
                            let exp = model_wop(op, e, wb, &mut m);
                            let got = match op {
                                WOp::Bits { v, n } => w.write_bits(clean_arg(*v, *n as usize), *n as usize).map(Some),
                                WOp::Unary(x) => w.write_unary(*x).map(Some),
                                WOp::Flush => w.flush().map(Some),
                                WOp::Code { call, v } => w.write_code(call, *v).map(Some),
                                _ => Err("unsupported step".into()),
                            };
                            if got != Ok(exp) {
                                res = Err(Failure::new(
                                    format!("dst{}/{}/{}", if copied { "_after_copy" } else { "" }, wop_name(op), tag),
                                    format!("step #{} {:?} returned {:?}, expected {:?}", i, op, got, exp),
                                ));
                                return;
                            }
                        }
                        Step::CopyTo(n) | Step::CopyFrom(n) => {
                            let nn = *n as usize;
                            if !z && p + nn > l {
                                // outside the domain of this property (C09's subject)
                                return;
                            }
                            let to = matches!(st, Step::CopyTo(_));
                            let r = if to { rd.copy_to(w, *n) } else { w.copy_from(rd, *n) };
                            let cls = format!("{}/{}", if to { "copy_to" } else { "copy_from" }, tag);
                            if let Err(er) = r {
                                res = Err(Failure::new(format!("{}/err", cls), format!("step #{} {:?} with source at bit {} returned Err({})", i, st, p, er)));
                                return;
                            }
                            if nn > 64 {
                                out.nt("n_gt_64");
                            }
                            if notes.fill > rw {
                                out.nt("source_held_more_than_one_word");
                            }
                            if wb == 128 {
                                out.nt("destination_word_u128");
                            }
                            if nn % rw != 0 && nn % wb != 0 {
                                out.nt("n_multiple_of_neither_word");
                            }
                            if nn == 0 {
                                out.label("n0");
                            }
                            for j in 0..nn {
                                m.push(src.get(p + j));
                            }
                            // fill-level bookkeeping for labels only
                            let mut nt2 = RNotes { fill: notes.fill, ..RNotes::default() };
                            let _ = &mut nt2;
                            if c.rcfg.r != RKind::Unbuf {
                                if nn <= notes.fill {
                                    notes.fill -= nn;
                                } else {
                                    let rem = nn - notes.fill;
                                    notes.fill = (rw - rem % rw) % rw;
                                }
                            }
                            p += nn;
                            copied = true;
                        }
                    }
                }
            }));
        })
    });
    if let Err(pn) = g {
        let dir = c.steps.iter().find_map(|s| match s {
            Step::CopyTo(_) => Some("copy_to"),
            Step::CopyFrom(_) => Some("copy_from"),
            _ => None,
        });
        return Err(Failure::new(
            format!("panic/{}/{}/{}", dir.unwrap_or("nocopy"), tag, sig_sanitize(&pn.chars().take(40).collect::<String>())),
            format!("panic during copy history {} -> {}: {}", c.rcfg.name(), c.wcfg.name(), pn),
        ));
    }
    res?;
    // a history cut short (copy outside the domain / strict end) is not compared at the end
    let completed = {
        let mut p = 0usize;
        let mut ok = true;
        for st in &c.steps {
            match st {
                Step::CopyTo(n) | Step::CopyFrom(n) => {
                    if !z && p + *n as usize > l {
                        ok = false;
                        break;
                    }
                    p += *n as usize;
                }
                Step::R(op) => sim_pos(op, src, e, &mut p, z),
                _ => {}
            }
        }
        ok && !notes.stopped_on_error
    };
    if completed {
        let run = run.unwrap();
        // contents from the exact pass-2 model; the length was fixed by pass 1
        m.pad_to(wb);
        if m.len() != dst.len() {
            return Err(Failure::new("harness/c08_model_length", format!("model lengths differ {} vs {}", m.len(), dst.len())));
        }
        let exp = m.to_bytes(e);
        if run.bytes != exp {
            let first = run.bytes.iter().zip(exp.iter()).position(|(a, b)| a != b);
            return Err(Failure::new(
                format!("dst_bytes/{}", tag),
                format!("destination holds {} bytes, model {}; first difference at byte {:?}\n got {}\n exp {}", run.bytes.len(), exp.len(), first, hex(&run.bytes), hex(&exp)),
            ));
        }
    } else {
        out.label("history_cut_short_outside_domain");
        out.nontrivial = false;
    }
    Ok(out)
}

/// advance the model position for a reader operation (pass 1 only; pass 2 re-derives it exactly)
fn sim_pos(op: &ROp, src: &BitVec, e: En, p: &mut usize, z: bool) {
    match op {
        ROp::Bits(n) => *p += *n as usize,
        ROp::Skip(n) => *p += *n as usize,
        ROp::Unary => {
            if let Some(q) = src.next_one(*p) {
                *p = q + 1
            }
        }
        ROp::Code(call) => {
            if let Some((_, l)) = vcore::refcodes::decode(call.code(), src, *p, e, z) {
                *p += l
            }
        }
        ROp::IoRead(k) => *p += 8 * *k as usize,
        ROp::Seek(q) => *p = *q as usize,
        _ => {}
    }
}

fn fill_steps(f: usize) -> Vec<Step> {
    let mut v = vec![];
    let mut left = f;
    while left > 0 {
        let n = left.min(64);
        v.push(Step::W(WOp::Bits { v: 0x9D2C_5680_E3B1_47A6u64 & mask64(n), n: n as u8 }));
        left -= n;
    }
    v
}

fn run(ctx: &Ctx, env: &Env) -> Stats {
    let mut jobs: Vec<Job> = vec![];
    for e in En::ALL {
        for r in RKind::ALL {
            for w in Wd::WRITER {
                jobs.push(Box::new(move |ctx: &Ctx| {
                    let rw = r.word().bits();
                    let wb = w.bits();
                    let mut part = Part::new(ctx, format!("small/{}/{}>w{}", e.name(), r.name(), wb), "every source buffer state x destination fill x n in 0..=4*max(Wr,Ww)+3 x direction, with continuations", true);
                    let f = |c: &Case| check_case(c, env);
                    let nmax = 4 * rw.max(wb) + 3;
                    let img = Img::Pattern { pat: Pat::Random, bits: (2 * nmax + 6 * rw + 700) as u32, seed: 77 + ctx.seed, zero_from: None, one_at: None };
                    let ns = n_states(r);
                    let sstep = if ctx.quick() { if ns > 64 { 3 } else if ns > 32 { 2 } else { 1 } } else { 1 };
                    let mut states: Vec<Vec<Step>> = (0..ns).step_by(sstep).chain([ns - 1, rw.min(ns - 1)]).map(|s| state_prefix(r, s).0.into_iter().map(Step::R).collect()).collect();
                    // the state left by table-driven reads (look-ahead refill followed by a partial skip)
                    states.push(vec![Step::R(ROp::Bits(3)), Step::R(ROp::Code(Call::Gamma(Tb::On))), Step::R(ROp::Code(Call::Zeta3(Tb::On)))]);
                    states.push(vec![Step::R(ROp::Code(Call::Zeta3(Tb::On))), Step::R(ROp::Peek(r.peek_max() as u8))]);
                    let fills: Vec<usize> = if ctx.quick() { vec![0, 1, wb / 2 + 1, wb - 1] } else { (0..wb).collect() };
                    // destination states in which the buffer is empty but holds stale bits
                    let stale: Vec<Vec<Step>> = vec![
                        fill_steps(wb),
                        vec![Step::W(WOp::Bits { v: 0x2B, n: 6 }), Step::W(WOp::Flush)],
                        vec![Step::W(WOp::Bits { v: 0x5, n: 3 }), Step::W(WOp::Unary(wb as u64 - 4))],
                    ];
                    let nstep = if ctx.quick() && nmax > 300 { 3 } else { 1 };
                    let cont: Vec<Step> = vec![
                        Step::R(ROp::Pos),
                        Step::R(ROp::Code(Call::Gamma(Tb::On))),
                        Step::R(ROp::Code(Call::Zeta3(Tb::On))),
                        Step::R(ROp::Code(Call::Gamma(Tb::On))),
                        Step::R(ROp::Pos),
                        Step::W(WOp::Bits { v: 0x55, n: 7 }),
                        Step::CopyTo(5),
                        Step::R(ROp::Bits(64)),
                        Step::R(ROp::Peek(r.peek_max() as u8)),
                        Step::CopyFrom(rw as u64 + 1),
                        Step::R(ROp::Code(Call::Gamma(Tb::On))),
                        Step::R(ROp::Pos),
                        Step::W(WOp::Unary(3)),
                        Step::W(WOp::Flush),
                        Step::CopyTo(9),
                        Step::R(ROp::Bits(17)),
                    ];
                    let mut k = 0usize;
                    for st in &states {
                        for pre_w in &stale {
                            for n in [0usize, 1, wb - 1, wb, wb + 1, 2 * wb, 2 * wb + 3, 64, 65] {
                                for dir in 0..2 {
                                    k += 1;
                                    let mut steps = st.clone();
                                    steps.extend(pre_w.iter().cloned());
                                    steps.push(if dir == 0 { Step::CopyTo(n as u64) } else { Step::CopyFrom(n as u64) });
                                    steps.extend(cont.iter().cloned());
                                    let wbk = [WBackend::VecBorrowed, WBackend::Recording, WBackend::Slice][k % 3];
                                    let rbk = [RBackend::InfOwned, RBackend::Strict, RBackend::AdapterCursor][(k / 3) % 3];
                                    part.check(&Case { rcfg: RCfg::new(e, r, rbk), wcfg: WCfg::new(e, w, wbk), img: img.clone(), steps, huge: None }, &f);
                                }
                            }
                        }
                        for &fill in &fills {
                            for n in (0..=nmax).step_by(nstep).chain([64, 65, rw, rw + 1, wb, wb + 1, nmax]) {
                                for dir in 0..2 {
                                    k += 1;
                                    let mut steps = st.clone();
                                    steps.extend(fill_steps(fill));
                                    steps.push(if dir == 0 { Step::CopyTo(n as u64) } else { Step::CopyFrom(n as u64) });
                                    steps.extend(cont.iter().cloned());
                                    let wbk = [WBackend::VecBorrowed, WBackend::Recording, WBackend::Slice][k % 3];
                                    let rbk = [RBackend::InfOwned, RBackend::Strict, RBackend::AdapterCursor][(k / 3) % 3];
                                    part.check(&Case { rcfg: RCfg::new(e, r, rbk), wcfg: WCfg::new(e, w, wbk), img: img.clone(), steps, huge: None }, &f);
                                }
                            }
                        }
                    }
                    part.finish()
                }));
            }
        }
    }
    jobs.push(Box::new(move |ctx: &Ctx| {
        let mut part = Part::new(ctx, "huge", "single copies of more than 2^32 bits from a zero-extended source into counting sinks, both directions, both endiannesses", true);
        let f = |c: &Case| check_case(c, env);
        let dummy_r = RCfg::new(En::BE, RKind::Buf(Wd::U64), RBackend::InfOwned);
        let dummy_w = WCfg::new(En::BE, Wd::U64, WBackend::VecOwned);
        for e in En::ALL {
            for (r64, pre) in [(true, 1u8), (true, 0), (false, 7)] {
                for (k, n) in [(1u64 << 32) + 3, (1 << 32) + 64, (1u64 << 32) - 1, (1u64 << 33) + 17].into_iter().enumerate() {
                    if ctx.quick() && k >= 2 && !(r64 && pre == 1) {
                        continue;
                    }
                    for to in [true, false] {
                        let h = Huge { e, r64, pre, prew: if to { 0 } else { 5 }, words: 3, n, to, seed: n ^ pre as u64 };
                        part.check(&Case { rcfg: dummy_r, wcfg: dummy_w, img: Img::Pattern { pat: Pat::Zeros, bits: 64, seed: 0, zero_from: None, one_at: None }, steps: vec![], huge: Some(h) }, &f);
                    }
                }
            }
        }
        part.finish()
    }));
    let n_rand = ctx.t(25_000u64, 2_000_000);
    for j in 0..16 {
        jobs.push(Box::new(move |ctx: &Ctx| {
            let mut part = Part::new(ctx, format!("random/hist/{}", j), "proptest byte strings decoded into copy histories", false);
            part.random(n_rand, 300, &|s: &mut Src| gen_case(s), &|c: &Case| check_case(c, env));
            part.finish()
        }));
    }
    run_jobs(ctx, jobs)
}

pub fn gen_case(s: &mut Src) -> Case {
    let e = gen_en(s);
    let r = gen_rkind(s);
    let w = gen_wd_writer(s);
    let rb = s.pick(&[RBackend::InfOwned, RBackend::InfBorrowed, RBackend::Strict, RBackend::AdapterCursor, RBackend::VecReadback, RBackend::AdapterBufReader]);
    let wbk = s.pick(&WBackend::ALL);
    let bits = (s.range(4, 120) * 64) as u32;
    let n = s.range(1, 14);
    let mut steps = vec![];
    for _ in 0..n {
        steps.push(match s.weighted(&[4, 3, 3, 3]) {
            0 => Step::R(match s.below(4) {
                0 => ROp::Code(s.pick(&[Call::Gamma(Tb::On), Call::Zeta3(Tb::On), Call::Gamma(Tb::Off), Call::Zeta3(Tb::Default)])),
                1 => ROp::Pos,
                _ => gen_rop_prim(s, r, 1),
            }),
            1 => Step::W(gen_wop_prim(s, w.bits(), false, true)),
            k => {
                let n = match s.weighted(&[4, 3, 2, 1]) {
                    0 => s.below(70) as u64,
                    1 => (r.word().bits() * s.range(1, 4) + s.below(5)) as u64,
                    2 => (w.bits() * s.range(1, 3) + s.below(5)) as u64,
                    _ => s.below(5001) as u64,
                };
                if k == 2 {
                    Step::CopyTo(n)
                } else {
                    Step::CopyFrom(n)
                }
            }
        });
    }
    Case { rcfg: RCfg::new(e, r, rb), wcfg: WCfg::new(e, w, wbk), img: Img::Pattern { pat: Pat::Random, bits, seed: s.u16() as u64, zero_from: None, one_at: None }, steps, huge: None }
}

fn replay(v: &serde_json::Value, env: &Env) -> CheckResult {
    let c: Case = serde_json::from_value(v.clone()).map_err(|e| Failure::new("replay/parse", e.to_string()))?;
    run_guarded(&c, &|c: &Case| check_case(c, env))
}

fn from_bytes(data: &[u8], env: &Env) -> (serde_json::Value, CheckResult) {
    let c = gen_case(&mut Src::new(data));
    let r = run_guarded(&c, &|c| check_case(c, env));
    (serde_json::to_value(&c).unwrap_or(serde_json::Value::Null), r)
}
