//! Operation histories, their model semantics (bit model + reference codecs) and the
//! interpreters that execute them against the library and compare after every step.

use crate::adapters::*;
use crate::calls::*;
use serde::{Deserialize, Serialize};
use std::collections::BTreeMap;
use vcore::engine::{guarded, Failure};
use vcore::refcodes;
use vcore::{BitVec, Code, En};

// ---------------------------------------------------------------------------------------------
// Writer histories
// ---------------------------------------------------------------------------------------------

#[derive(Clone, PartialEq, Eq, Hash, Debug, Serialize, Deserialize)]
pub enum WOp {
    Bits { v: u64, n: u8 },
    Unary(u64),
    Flush,
    Code { call: Call, v: u64 },
    IoWrite(Vec<u8>),
    IoFlush,
    /// direct call of `*_tables::write_table_*`
    TabWrite { which: String, v: u64 },
}

/// Set by C19: arguments of fixed-width writes are cleaned before they reach the library (the
/// `checks` feature makes dirty arguments panic by design).
pub static SANITIZE: std::sync::atomic::AtomicBool = std::sync::atomic::AtomicBool::new(false);

pub fn clean_arg(v: u64, n: usize) -> u64 {
    if SANITIZE.load(std::sync::atomic::Ordering::Relaxed) {
        v & mask64(n)
    } else {
        v
    }
}

pub fn mask64(n: usize) -> u64 {
    if n >= 64 {
        u64::MAX
    } else {
        (1u64 << n) - 1
    }
}

/// Apply `op` to the model; returns the value the library call must return.
pub fn model_wop(op: &WOp, e: En, wbits: usize, m: &mut BitVec) -> Option<usize> {
    match op {
        WOp::Bits { v, n } => {
            m.push_field((*v & mask64(*n as usize)) as u128, *n as usize, e);
            Some(*n as usize)
        }
        WOp::Unary(x) => {
            m.push_unary(*x);
            Some(*x as usize + 1)
        }
        WOp::Flush | WOp::IoFlush => {
            let pending = m.len() % wbits;
            m.pad_to(wbits);
            Some(pending)
        }
        WOp::Code { call, v } => {
            let before = m.len();
            refcodes::encode(call.code(), *v, e, m);
            Some(m.len() - before)
        }
        WOp::IoWrite(buf) => {
            for b in buf {
                m.push_field(*b as u128, 8, e);
            }
            Some(buf.len())
        }
        WOp::TabWrite { which, v } => {
            let (code, max) = tab_code(which);
            if *v <= max {
                let before = m.len();
                refcodes::encode(code, *v, e, m);
                Some(m.len() - before)
            } else {
                None
            }
        }
    }
}

/// (code, largest value the documentation says the encoding table covers: WRITE_MAX)
pub fn tab_code(which: &str) -> (Code, u64) {
    use dsi_bitstream::codes::{delta_tables, gamma_tables, zeta_tables};
    match which {
        "gamma" => (Code::Gamma, gamma_tables::WRITE_MAX),
        "delta" => (Code::Delta, delta_tables::WRITE_MAX),
        "zeta" => (Code::Zeta(3), zeta_tables::WRITE_MAX),
        _ => unreachable!(),
    }
}

pub fn tab_read_bits(which: &str) -> usize {
    use dsi_bitstream::codes::{delta_tables, gamma_tables, zeta_tables};
    match which {
        "gamma" => gamma_tables::READ_BITS,
        "delta" => delta_tables::READ_BITS,
        "zeta" => zeta_tables::READ_BITS,
        _ => unreachable!(),
    }
}

pub fn wop_name(op: &WOp) -> String {
    match op {
        WOp::Bits { .. } => "write_bits".into(),
        WOp::Unary(_) => "write_unary".into(),
        WOp::Flush => "flush".into(),
        WOp::Code { call, .. } => format!("write_{}", call.code().family()),
        WOp::IoWrite(_) => "io_write".into(),
        WOp::IoFlush => "io_flush".into(),
        WOp::TabWrite { which, .. } => format!("tab_write_{}", which),
    }
}

pub struct WDone {
    /// bytes held by the backend after termination
    pub bytes: Vec<u8>,
    /// the model after the history and the terminating flush
    pub model: BitVec,
    /// model length before the final padding
    pub data_bits: usize,
    pub counter: Option<usize>,
}

/// Execute a writer history on the library, comparing with the model after every operation.
pub fn run_writer(cfg: WCfg, end: WEnd, ops: &[WOp]) -> Result<WDone, Failure> {
    let e = cfg.e;
    let wb = cfg.w.bits();
    let tag = format!("w{}", wb);
    // a wrapper created in mid-stream: the bare writer already holds these bits
    let prefix: usize = if cfg.wrap == WWrap::CountMid { 3 } else { 0 };
    // model first (sizes the fixed slice, D11)
    let mut full = BitVec::new();
    full.push_field(0b101, prefix, e);
    let mut rets = Vec::with_capacity(ops.len());
    for op in ops {
        rets.push(model_wop(op, e, wb, &mut full));
    }
    if end == WEnd::UnwrapThenWrite && cfg.wrap != WWrap::Dbg {
        // the sentinel written after unwrapping (see WEnd::UnwrapThenWrite)
        full.push_field(0b1011, 4, e);
    }
    let data_bits = full.len();
    let final_pending = full.len() % wb;
    full.pad_to(wb);
    let cap_words = full.len() / wb;
    let full_bytes = full.to_bytes(e);

    let mut fail: Option<Failure> = None;
    let mut counter = None;
    let run = guarded(|| {
        with_writer(cfg, cap_words, end, &mut |w, rec| {
            let mut m = BitVec::new();
            m.push_field(0b101, prefix, e);
            for (i, op) in ops.iter().enumerate() {
                let name = wop_name(op);
                let before = m.len();
                let exp = model_wop(op, e, wb, &mut m);
                debug_assert_eq!(exp, rets[i]);
                let got: Result<Option<usize>, String> = match op {
                    WOp::Bits { v, n } => w.write_bits(clean_arg(*v, *n as usize), *n as usize).map(Some),
                    WOp::Unary(x) => w.write_unary(*x).map(Some),
                    WOp::Flush => w.flush().map(Some),
                    WOp::Code { call, v } => w.write_code(call, *v).map(Some),
                    WOp::IoWrite(buf) => match w.io_write(buf) {
                        Some(r) => r.map(Some),
                        None => Err("io::Write not available".into()),
                    },
                    WOp::IoFlush => match w.io_flush() {
                        Some(r) => r.map(|_| exp),
                        None => Err("io::Write not available".into()),
                    },
                    WOp::TabWrite { which, v } => w.tab_write(which, *v),
                };
                match got {
                    Err(er) => {
                        fail = Some(Failure::new(format!("{}/{}/err", name, tag), format!("op #{} {:?} returned Err({}) on {}", i, op, er, cfg.name())));
                        return;
                    }
                    Ok(g) => {
                        let ok = match op {
                            // the encoding table may decline (None) only above WRITE_MAX; Some must be exact
                            WOp::TabWrite { .. } => g == exp,
                            _ => g == exp,
                        };
                        if !ok {
                            fail = Some(Failure::new(
                                format!("{}/{}/ret", name, tag),
                                format!("op #{} {:?} returned {:?}, expected {:?} (stream had {} bits) on {}", i, op, g, exp, before, cfg.name()),
                            ));
                            return;
                        }
                    }
                }
                if let Some(c) = w.counter() {
                    if c != m.len() - prefix - count_padding(ops, i, e, wb, prefix) {
                        fail = Some(Failure::new(
                            format!("count_w/{}", name),
                            format!("after op #{} {:?}: bits_written = {}, bits actually written = {} on {}", i, op, c, m.len() - prefix - count_padding(ops, i, e, wb, prefix), cfg.name()),
                        ));
                        return;
                    }
                }
                if let Some(rec) = rec {
                    let l = rec.borrow();
                    if matches!(op, WOp::Flush | WOp::IoFlush) && l.unflushed_words != 0 {
                        fail = Some(Failure::new(
                            format!("rec/flush_not_propagated/{}", tag),
                            format!("after op #{} {:?}: flush returned Ok but the backend's flush was not called after its last {} word(s) on {}", i, op, l.unflushed_words, cfg.name()),
                        ));
                        return;
                    }
                    let complete = m.len() / wb;
                    if l.words > complete {
                        fail = Some(Failure::new(format!("rec/early/{}", tag), format!("after op #{} {:?}: {} words delivered but only {} complete on {}", i, op, l.words, complete, cfg.name())));
                        return;
                    }
                    let mb = m.to_bytes(e);
                    if l.bytes[..] != mb[..l.bytes.len()] {
                        fail = Some(Failure::new(format!("rec/prefix/{}", tag), format!("after op #{} {:?}: delivered words are not a prefix of the canonical image on {}", i, op, cfg.name())));
                        return;
                    }
                }
            }
            counter = w.counter();
        })
    });
    if let Some(f) = fail {
        return Err(f);
    }
    let run = match run {
        Ok(r) => r,
        Err(p) => {
            return Err(Failure::new(
                format!("panic_w/{}/{}", tag, vcore::engine::sig_sanitize(&p.chars().take(40).collect::<String>())),
                format!("panic during writer history on {}: {}", cfg.name(), p),
            ))
        }
    };
    // termination
    match end {
        WEnd::FlushThenDrop => {
            if run.end_flush.first() != Some(&Ok(final_pending)) {
                return Err(Failure::new(format!("endflush/{}", tag), format!("terminating flush returned {:?}, expected {} on {}", run.end_flush, final_pending, cfg.name())));
            }
        }
        WEnd::FlushTwiceThenIntoInner => {
            if run.end_flush.first() != Some(&Ok(final_pending)) || run.end_flush.get(1) != Some(&Ok(0)) {
                return Err(Failure::new(format!("endflush/{}", tag), format!("terminating flushes returned {:?}, expected [{}, 0] on {}", run.end_flush, final_pending, cfg.name())));
            }
        }
        _ => {}
    }
    if run.bytes != full_bytes {
        let first = run.bytes.iter().zip(full_bytes.iter()).position(|(a, b)| a != b);
        return Err(Failure::new(
            format!("final/bytes/{}", tag),
            format!(
                "backend holds {} bytes, canonical image has {}; first difference at byte {:?} on {} end {:?}\n got {}\n exp {}",
                run.bytes.len(),
                full_bytes.len(),
                first,
                cfg.name(),
                end,
                hex(&run.bytes),
                hex(&full_bytes)
            ),
        ));
    }
    Ok(WDone { bytes: run.bytes, model: full, data_bits, counter })
}

/// Number of zero-padding bits the model inserted for flushes up to and including op `i`
/// (a counting wrapper counts bits written, not padding).
fn count_padding(ops: &[WOp], i: usize, e: En, wb: usize, prefix: usize) -> usize {
    let mut m = BitVec::new();
    m.push_field(0b101, prefix, e);
    let mut pad = 0;
    for op in &ops[..=i] {
        if matches!(op, WOp::Flush | WOp::IoFlush) {
            let p = m.len() % wb;
            if p != 0 {
                pad += wb - p;
            }
        }
        model_wop(op, e, wb, &mut m);
    }
    pad
}

pub fn hex(b: &[u8]) -> String {
    let mut s = String::new();
    for (i, x) in b.iter().enumerate() {
        if i >= 96 {
            s.push_str("..");
            break;
        }
        s.push_str(&format!("{:02x}", x));
    }
    s
}

// ---------------------------------------------------------------------------------------------
// Reader histories
// ---------------------------------------------------------------------------------------------

#[derive(Clone, PartialEq, Eq, Hash, Debug, Serialize, Deserialize)]
pub enum ROp {
    Bits(u8),
    Unary,
    Skip(u32),
    Peek(u8),
    Code(Call),
    Pos,
    Seek(u64),
    IoRead(u16),
    /// clone the reader, run these operations on the clone, then continue on the original
    Fork(Vec<ROp>),
    TabRead(String),
    TabLen(String),
}

pub fn rop_name(op: &ROp) -> String {
    match op {
        ROp::Bits(_) => "read_bits".into(),
        ROp::Unary => "read_unary".into(),
        ROp::Skip(_) => "skip_bits".into(),
        ROp::Peek(_) => "peek_bits".into(),
        ROp::Code(c) => format!("read_{}", c.code().family()),
        ROp::Pos => "bit_pos".into(),
        ROp::Seek(_) => "set_bit_pos".into(),
        ROp::IoRead(_) => "io_read".into(),
        ROp::Fork(_) => "clone".into(),
        ROp::TabRead(w) => format!("tab_read_{}", w),
        ROp::TabLen(w) => format!("tab_len_{}", w),
    }
}

/// Which decoding tables a reader kind may be used with: measured from the library's own
/// construction-time diagnostics (D7).
#[derive(Clone, Debug, Default, PartialEq, Eq)]
pub struct TableDomain {
    pub allowed: BTreeMap<String, Vec<String>>,
}

impl TableDomain {
    pub fn allows(&self, r: RKind, table: &str) -> bool {
        self.allowed.get(&r.name()).map(|v| v.iter().any(|t| t == table)).unwrap_or(false)
    }
    pub fn allows_call(&self, r: RKind, c: &Call) -> bool {
        c.read_tables().iter().all(|t| self.allows(r, t))
    }
}

pub struct RStream<'a> {
    pub cfg: RCfg,
    /// the data bits (length = a multiple of the reader word)
    pub model: &'a BitVec,
    /// positions at which a codeword of the given code is known to start (by construction)
    pub starts: &'a BTreeMap<usize, Code>,
    pub tables: &'a TableDomain,
    /// codes for which *every* position of the stream may be decoded (self-synchronising data:
    /// the reference decoder decides at run time whether a complete in-domain codeword starts)
    pub free_codes: &'a [Code],
}

#[derive(Default, Debug, Clone)]
pub struct RNotes {
    pub executed: usize,
    pub skipped_domain: usize,
    pub refill_with_nonempty: bool,
    pub multiword_read: bool,
    pub peek_then_more: bool,
    pub long_unary: bool,
    pub hit_end_error: bool,
    pub table_lookahead_crossed_end: bool,
    pub table_used: bool,
    pub seek_unaligned: bool,
    pub forked: bool,
    pub beyond_end_zero: bool,
    pub stopped_on_error: bool,
    pub cut_inside_item: bool,
    /// labels derived from a model of the buffered reader's fill level (labels only, never an oracle)
    pub nonempty_refill: bool,
    pub multiword_buffered: bool,
    pub n64_empty: bool,
    pub double_word_unbuf: bool,
    pub pos_while_multiword: bool,
    pub seek_back_after_table: bool,
    pub fill: usize,
    /// bits consumed since the (possibly wrapping) reader was created: what a counting wrapper must report
    pub consumed: usize,
}

impl RNotes {
    fn consume(&mut self, n: usize, w: usize, unbuf: bool, p: usize) {
        if unbuf {
            if n > 0 && p % 64 + n > 64 {
                self.double_word_unbuf = true;
            }
            return;
        }
        if n <= self.fill {
            self.fill -= n;
        } else {
            if self.fill > 0 {
                self.nonempty_refill = true;
            }
            if n == 64 && self.fill == 0 {
                self.n64_empty = true;
            }
            let rem = n - self.fill;
            self.fill = (w - rem % w) % w;
        }
    }
    fn peek(&mut self, n: usize, w: usize, unbuf: bool, p: usize) {
        if unbuf {
            if p % 64 + n > 64 {
                self.double_word_unbuf = true;
            }
            return;
        }
        if n > self.fill {
            if self.fill > 0 {
                self.nonempty_refill = true;
            }
            self.fill += w;
            if self.fill > w {
                self.multiword_buffered = true;
            }
        }
    }
}

pub enum Step {
    Continue,
    Stop,
}

/// Execute a reader history against the library, comparing with the model after every step.
pub fn run_reader(s: &RStream, ops: &[ROp]) -> Result<RNotes, Failure> {
    let bytes = s.model.to_bytes(s.cfg.e);
    let mut notes = RNotes::default();
    let mut res: Result<(), Failure> = Ok(());
    let tag = s.cfg.r.name();
    let r = guarded(|| {
        with_reader(s.cfg, &bytes, &mut |rd| {
            // the reader starts after the pre-wrap prefix
            let mut p = s.cfg.pre as usize;
            res = exec_rops(s, rd, ops, &mut p, &mut notes, 0).map(|_| ());
        })
    });
    if let Err(p) = r {
        return Err(Failure::new(
            format!("panic_r/{}/{}", tag, vcore::engine::sig_sanitize(&p.chars().take(40).collect::<String>())),
            format!("panic during reader history on {}: {}", s.cfg.name(), p),
        ));
    }
    res.map(|_| notes)
}

pub fn exec_rops(s: &RStream, rd: &mut dyn DynR, ops: &[ROp], p: &mut usize, notes: &mut RNotes, depth: usize) -> Result<Step, Failure> {
    let e = s.cfg.e;
    let l = s.model.len();
    let z = s.cfg.backend.zero_ext();
    let w = s.cfg.r.word().bits();
    let tag = s.cfg.r.name();
    let cfgname = s.cfg.name();
    let unbuf = s.cfg.r == RKind::Unbuf;
    let mut last_p = *p;
    for (i, op) in ops.iter().enumerate() {
        // a counting wrapper must equal the model position after every operation
        if i > 0 {
            // account for what the previous operation consumed (a seek consumes nothing)
            if !matches!(ops[i - 1], ROp::Seek(_)) && *p >= last_p {
                notes.consumed += *p - last_p;
            }
            if let Some(cn) = rd.counter() {
                if cn != notes.consumed {
                    return Err(Failure::new(
                        format!("count_r/{}", rop_name(&ops[i - 1])),
                        format!("after op #{} {:?}: bits_read = {}, bits actually consumed since the wrapper was created = {} on {}", i - 1, ops[i - 1], cn, notes.consumed, cfgname),
                    ));
                }
            }
        }
        last_p = *p;
        let name = rop_name(op);
        let sig = |what: &str| format!("{}/{}/{}", name, tag, what);
        let ctx = |what: String| format!("op #{} {:?} at bit {} of {} (depth {}): {} on {}", i, op, *p, l, depth, what, cfgname);
        notes.executed += 1;
        match op {
            ROp::Bits(n) => {
                let n = *n as usize;
                let within = *p + n <= l;
                let got = rd.read_bits(n);
                if z || within {
                    let exp = s.model.field(*p, n, e) as u64;
                    match got {
                        Ok(v) if v == exp => {}
                        Ok(v) => return Err(Failure::new(sig("value"), ctx(format!("returned {:#x}, expected {:#x}", v, exp)))),
                        Err(er) => return Err(Failure::new(sig("err"), ctx(format!("returned Err({}), expected {:#x}", er, exp)))),
                    }
                    if n > w {
                        notes.multiword_read = true;
                    }
                    if !within {
                        notes.beyond_end_zero = true;
                    }
                    notes.consume(n, w, unbuf, *p);
                    *p += n;
                } else if n == 0 {
                    // nothing is needed from the stream: any answer but a non-zero value is fine
                    if let Ok(v) = got {
                        if v != 0 {
                            return Err(Failure::new(sig("value"), ctx(format!("read_bits(0) returned {:#x}", v))));
                        }
                    }
                } else {
                    match got {
                        Err(_) => {
                            notes.hit_end_error = true;
                            notes.stopped_on_error = true;
                            return Ok(Step::Stop);
                        }
                        Ok(v) => return Err(Failure::new(sig("fabricated"), ctx(format!("needs a bit beyond the end of a strict stream but returned Ok({:#x})", v)))),
                    }
                }
            }
            ROp::Unary => match s.model.next_one(*p) {
                Some(q) => {
                    let exp = (q - *p) as u64;
                    match rd.read_unary() {
                        Ok(v) if v == exp => {}
                        Ok(v) => return Err(Failure::new(sig("value"), ctx(format!("returned {}, expected {}", v, exp)))),
                        Err(er) => return Err(Failure::new(sig("err"), ctx(format!("returned Err({}), expected {}", er, exp)))),
                    }
                    if exp as usize >= w {
                        notes.long_unary = true;
                    }
                    notes.consume(q + 1 - *p, w, unbuf, *p);
                    *p = q + 1;
                }
                None => {
                    if z {
                        // D3: the library documents that this may loop forever
                        notes.skipped_domain += 1;
                        notes.executed -= 1;
                    } else {
                        match rd.read_unary() {
                            Err(_) => {
                                notes.hit_end_error = true;
                                notes.stopped_on_error = true;
                                return Ok(Step::Stop);
                            }
                            Ok(v) => return Err(Failure::new(sig("fabricated"), ctx(format!("no one bit before the end of a strict stream but returned Ok({})", v)))),
                        }
                    }
                }
            },
            ROp::Skip(n) => {
                let n = *n as usize;
                let within = *p + n <= l;
                match rd.skip_bits(n) {
                    Ok(()) => {
                        notes.consume(n, w, unbuf, *p);
                        *p += n;
                        if !within && !z {
                            // D9: allowed; later reads must fail (checked by the Bits arm)
                            notes.hit_end_error = true;
                        }
                    }
                    Err(er) => {
                        if z || within {
                            return Err(Failure::new(sig("err"), ctx(format!("returned Err({}) although the bits exist", er))));
                        }
                        notes.hit_end_error = true;
                        notes.stopped_on_error = true;
                        return Ok(Step::Stop);
                    }
                }
            }
            ROp::Peek(n) => {
                let n = *n as usize;
                if n == 0 || n > s.cfg.r.peek_max() {
                    notes.skipped_domain += 1;
                    notes.executed -= 1;
                    continue;
                }
                if *p > l && !z {
                    // after a skip beyond the end (D9): only "never a value" is required
                    if let Ok(v) = rd.peek_bits(n) {
                        return Err(Failure::new(sig("fabricated"), ctx(format!("beyond the end but returned Ok({:#x})", v))));
                    }
                    notes.stopped_on_error = true;
                    return Ok(Step::Stop);
                }
                let within = *p + n <= l;
                let got = rd.peek_bits(n);
                if z || within {
                    let exp = s.model.field(*p, n, e) as u64;
                    match got {
                        Ok(v) if v == exp => {}
                        Ok(v) => return Err(Failure::new(sig("value"), ctx(format!("returned {:#x}, expected {:#x}", v, exp)))),
                        Err(er) => return Err(Failure::new(sig("err"), ctx(format!("returned Err({}), expected {:#x}", er, exp)))),
                    }
                    match rd.peek_bits(n) {
                        Ok(v) if v == exp => {}
                        o => return Err(Failure::new(sig("repeat"), ctx(format!("second identical peek returned {:?}, expected {:#x}", o, exp)))),
                    }
                    notes.peek_then_more = true;
                    notes.peek(n, w, unbuf, *p);
                } else {
                    match got {
                        Err(_) => {
                            notes.hit_end_error = true;
                            notes.stopped_on_error = true;
                            return Ok(Step::Stop);
                        }
                        Ok(v) => return Err(Failure::new(sig("fabricated"), ctx(format!("needs a bit beyond the end of a strict stream but returned Ok({:#x})", v)))),
                    }
                }
            }
            ROp::Code(call) => {
                let code = call.code();
                if (s.starts.get(p) != Some(&code) && !s.free_codes.contains(&code)) || !s.tables.allows_call(s.cfg.r, call) {
                    notes.skipped_domain += 1;
                    notes.executed -= 1;
                    continue;
                }
                let strict_dec = refcodes::decode(code, s.model, *p, e, false);
                let dec = if z { refcodes::decode(code, s.model, *p, e, true) } else { strict_dec };
                match dec {
                    Some((v, len)) => {
                        // the table look-ahead would cross the end of the data
                        for t in call.read_tables() {
                            notes.table_used = true;
                            if *p + tab_read_bits(t) > l {
                                notes.table_lookahead_crossed_end = true;
                            }
                        }
                        match rd.read_code(call) {
                            Ok(g) if g == v => {}
                            Ok(g) => return Err(Failure::new(sig("value"), ctx(format!("returned {}, expected {} (codeword of {} bits)", g, v, len)))),
                            Err(er) => return Err(Failure::new(sig("err"), ctx(format!("returned Err({}), expected {} (codeword of {} bits, entirely within the data)", er, v, len)))),
                        }
                        if *p + len > l {
                            notes.beyond_end_zero = true;
                        }
                        for t in call.read_tables() {
                            if z || *p + tab_read_bits(t) <= l {
                                notes.peek(tab_read_bits(t), w, unbuf, *p);
                            }
                        }
                        notes.consume(len, w, unbuf, *p);
                        *p += len;
                    }
                    None => {
                        if z || s.starts.get(p) != Some(&code) {
                            // zero-extended tail without a complete codeword (D3), or a free position
                            // whose bits are not an in-domain codeword (D4)
                            notes.skipped_domain += 1;
                            notes.executed -= 1;
                            continue;
                        }
                        // strict: the codeword that starts here is cut by the end of the data
                        notes.cut_inside_item = true;
                        match rd.read_code(call) {
                            Err(_) => {
                                notes.hit_end_error = true;
                                notes.stopped_on_error = true;
                                return Ok(Step::Stop);
                            }
                            Ok(g) => return Err(Failure::new(sig("fabricated"), ctx(format!("the codeword is cut by the end of a strict stream but the read returned Ok({})", g)))),
                        }
                    }
                }
            }
            ROp::Pos => {
                if let Some(r) = rd.bit_pos() {
                    match r {
                        Ok(g) if g == *p as u64 => {
                            if notes.fill > w {
                                notes.pos_while_multiword = true;
                            }
                        }
                        o => return Err(Failure::new(format!("bit_pos/{}", tag), ctx(format!("bit_pos() = {:?}, model position {}", o, *p)))),
                    }
                }
            }
            ROp::Seek(q) => {
                let q = *q as usize;
                if q > l {
                    notes.skipped_domain += 1;
                    notes.executed -= 1;
                    continue;
                }
                match rd.set_bit_pos(q as u64) {
                    None => {
                        notes.skipped_domain += 1;
                        notes.executed -= 1;
                        continue;
                    }
                    Some(Ok(())) => {
                        if q < *p && notes.table_used {
                            notes.seek_back_after_table = true;
                        }
                        *p = q;
                        if q % w != 0 {
                            notes.seek_unaligned = true;
                        }
                        notes.fill = if unbuf { 0 } else { (w - q % w) % w };
                    }
                    Some(Err(er)) => return Err(Failure::new(sig("err"), ctx(format!("set_bit_pos({}) returned Err({})", q, er)))),
                }
            }
            ROp::IoRead(k) => {
                let k = *k as usize;
                let mut buf = vec![0xA5u8; k];
                let within = *p + 8 * k <= l;
                if *p > l && !z {
                    notes.skipped_domain += 1;
                    notes.executed -= 1;
                    continue;
                }
                match rd.io_read(&mut buf) {
                    None => {
                        notes.skipped_domain += 1;
                        notes.executed -= 1;
                        continue;
                    }
                    Some(got) => {
                        if z || within {
                            let exp: Vec<u8> = (0..k).map(|j| s.model.field(*p + 8 * j, 8, e) as u8).collect();
                            match got {
                                Ok(g) if g == k && buf == exp => {}
                                Ok(g) => {
                                    return Err(Failure::new(
                                        sig(if g != k { "count" } else { "bytes" }),
                                        ctx(format!("returned {} bytes {}, expected {} bytes {}", g, hex(&buf), k, hex(&exp))),
                                    ))
                                }
                                Err(er) => return Err(Failure::new(sig("err"), ctx(format!("returned Err({})", er)))),
                            }
                            let mut left = 8 * k;
                            while left > 0 {
                                let c = left.min(64);
                                notes.consume(c, w, unbuf, *p);
                                *p += c;
                                left -= c;
                            }
                        } else {
                            match got {
                                Err(_) => {
                                    notes.hit_end_error = true;
                                    notes.stopped_on_error = true;
                                    return Ok(Step::Stop);
                                }
                                Ok(g) => {
                                    return Err(Failure::new(sig("fabricated"), ctx(format!("needs bits beyond the end of a strict stream but returned Ok({}) {}", g, hex(&buf)))))
                                }
                            }
                        }
                    }
                }
            }
            ROp::Fork(sub) => {
                let mut sub_res: Result<Step, Failure> = Ok(Step::Continue);
                let mut pc = *p;
                let mut sub_notes = RNotes { fill: notes.fill, consumed: notes.consumed, ..RNotes::default() };
                let could = rd.fork(&mut |c| {
                    sub_res = exec_rops(s, c, sub, &mut pc, &mut sub_notes, depth + 1);
                });
                if could {
                    notes.forked = true;
                    notes.executed += sub_notes.executed;
                    notes.skipped_domain += sub_notes.skipped_domain;
                    if let Err(mut f) = sub_res {
                        f.sig = format!("clone/{}", f.sig);
                        return Err(f);
                    }
                } else {
                    notes.skipped_domain += 1;
                    notes.executed -= 1;
                }
            }
            ROp::TabRead(which) | ROp::TabLen(which) => {
                if !s.tables.allows(s.cfg.r, which) || (*p > l && !z) {
                    notes.skipped_domain += 1;
                    notes.executed -= 1;
                    continue;
                }
                let (code, _) = tab_code(which);
                let rb = tab_read_bits(which);
                let can_peek = z || *p + rb <= l;
                // what the bits ahead decode to (zero-extended view of the look-ahead window only)
                let window = s.model.slice(*p, *p + rb);
                let dec = refcodes::decode(code, &window, 0, e, false);
                let got: Option<(Option<u64>, usize)> = match op {
                    ROp::TabRead(_) => rd.tab_read(which).map(|(v, l)| (Some(v), l)),
                    _ => rd.tab_len(which).map(|l| (None, l)),
                };
                notes.table_used = true;
                if !can_peek {
                    notes.table_lookahead_crossed_end = true;
                }
                match got {
                    Some((gv, gl)) => {
                        if !can_peek {
                            return Err(Failure::new(sig("fabricated"), ctx(format!("look-ahead crosses the end of a strict stream but the table returned Some(({:?}, {}))", gv, gl))));
                        }
                        match dec {
                            Some((v, len)) if len == gl && gv.map(|g| g == v).unwrap_or(true) => {
                                notes.peek(rb, w, unbuf, *p);
                                notes.consume(len, w, unbuf, *p);
                                *p += len
                            }
                            _ => return Err(Failure::new(sig("value"), ctx(format!("table returned ({:?}, {}), reference decodes the window as {:?}", gv, gl, dec)))),
                        }
                    }
                    None => { /* reader must be untouched: verified by the following operations */ }
                }
            }
        }
    }
    if let Some(last) = ops.last() {
        if !matches!(last, ROp::Seek(_)) && *p >= last_p {
            notes.consumed += *p - last_p;
        }
        if let Some(cn) = rd.counter() {
            if cn != notes.consumed {
                return Err(Failure::new(
                    format!("count_r/{}", rop_name(last)),
                    format!("after the last op {:?}: bits_read = {}, bits actually consumed since the wrapper was created = {} on {}", last, cn, notes.consumed, cfgname),
                ));
            }
        }
    }
    Ok(Step::Continue)
}
