//! C12 — std::io::Read / std::io::Write views of a bit stream are byte-exact.

use crate::c07::with_pos;
use crate::calls::*;
use crate::gen::*;
use crate::ops::*;
use crate::streams::*;
use crate::{Env, PropDef};
use serde::{Deserialize, Serialize};
use vcore::engine::*;
use vcore::grid::Rng;
use vcore::{fail, En};

#[derive(Clone, PartialEq, Eq, Hash, Debug, Serialize, Deserialize)]
pub enum Case {
    /// writer: `off` arbitrary bits, then the slice through io::Write, then further bit operations
    Write { cfg: WCfg, off: u16, slice: Vec<u8>, write_all: bool, after: Vec<WOp> },
    /// reader: a history containing io::Read calls
    Read(RCase),
    /// writer: `off` bits, then io::Write::write_vectored with these slices, then a 7-bit sentinel. The call may
    /// accept any prefix of the concatenation (the std default takes the first non-empty slice): whatever count k
    /// it reports, exactly the first k bytes must be in the stream
    WriteV { e: En, w: Wd, off: u8, slices: Vec<Vec<u8>> },
}

pub const DEF: PropDef = PropDef {
    id: "C12",
    rule: "Writer cases: (endianness x writer word u8..u128 x backend, starting bit offset, byte slice, write vs write_all, following bit \
operations): the call must report the whole slice and the stream must contain byte j of the slice at stream bits [off+8j, off+8j+8) in the \
stream's bit order (so at byte-aligned offsets the memory image contains the slice verbatim, which is checked directly as well). Enumerated \
completely: every slice length 0..=40 x every offset 0..=2W x every writer word x both endiannesses; plus proptest-generated longer slices (up \
to 600 bytes) interleaved with bit operations and io::Write::flush calls (which pad like BitWrite::flush and must emit nothing when nothing is \
pending: enumerated on a fresh writer, after whole words, after partial words, twice in a row, always followed by further writes); io::Write::write_vectored with several slices (whatever count it reports, exactly that prefix of the \
concatenation must be in the stream). Reader cases: (reader configuration, image, history with io::Read calls): every buffer length \
0..=40 x every offset 0..=2W+1 x {plain, after a look-ahead refill, data ending right after the requested bytes} x every reader (buffered \
u8..u64, unbuffered) x backends, enumerated completely, plus random histories; the bytes \
obtained must be the next 8*len stream bits grouped in stream order and the count must be the buffer length. Oracle: bit model. Non-trivial: \
length not a multiple of 8 or of the word size, or offset not a multiple of 8, or length >= word size for a word other than u64; distinct = \
distinct case hashes.",
    assumptions: &["bit model", "io::Read on a strict backend that runs out of data is C09's subject; here reads stay within the data or the backend is zero-extended"],
    run,
    replay,
    from_bytes: None,
};

fn pre_ops(off: usize, salt: u64) -> Vec<WOp> {
    let mut v = vec![];
    let mut left = off;
    let mut x = salt.wrapping_mul(0x9E3779B97F4A7C15) | 1;
    while left > 0 {
        let c = left.min(64);
        x = x.rotate_left(19).wrapping_mul(0xD1342543DE82EF95);
        v.push(WOp::Bits { v: x & mask64(c), n: c as u8 });
        left -= c;
    }
    v
}

pub fn check_case(c: &Case, env: &Env) -> CheckResult {
    let mut o = Outcome::new();
    match c {
        Case::Write { cfg, off, slice, write_all, after } => {
            let off = *off as usize;
            let mut ops = pre_ops(off, off as u64 + slice.len() as u64);
            // write_all over a writer that reports the whole slice is a single write call
            let _ = write_all;
            ops.push(WOp::IoWrite(slice.clone()));
            ops.extend(after.iter().cloned());
            ops.push(WOp::Bits { v: 0x2B, n: 7 });
            let done = run_writer(*cfg, WEnd::IntoInner, &ops).map_err(|mut f| {
                // classify the failing input for known-finding matching
                let cls = if slice.len() >= cfg.w.bytes() { "len>=word" } else { "len<word" };
                f.sig = format!("{}/{}", f.sig, cls);
                f
            })?;
            if off % 8 == 0 && done.bytes[off / 8..off / 8 + slice.len()] != slice[..] {
                fail!(format!("io_write/verbatim/w{}", cfg.w.bits()), "byte-aligned offset {} but the memory image does not contain the slice verbatim", off);
            }
            let wb = cfg.w.bytes();
            if slice.len() % 8 != 0 || slice.len() % wb != 0 {
                o.nt("length_not_multiple_of_8_or_word");
            }
            if off % 8 != 0 {
                o.nt("offset_not_byte_aligned");
            }
            if slice.len() >= wb && cfg.w != Wd::U64 {
                o.nt("length_ge_word_size_non_u64");
            }
            if slice.is_empty() {
                o.label("empty_slice");
            }
        }
        Case::WriteV { e, w, off, slices } => {
            use dsi_bitstream::prelude::*;
            let off = *off as usize;
            let concat: Vec<u8> = slices.iter().flatten().copied().collect();
            let mut got: Option<(usize, Vec<u8>)> = None;
            macro_rules! go {
                ($E:ty, $W:ty) => {{
                    let mut bw = std::mem::ManuallyDrop::new(BufBitWriter::<$E, _>::new(MemWordWriterVec::<$W, Vec<$W>>::new(Vec::new())));
                    let _ = bw.write_bits(0x1555_5555_5555_5555u64 & mask64(off), off);
                    let ios: Vec<std::io::IoSlice> = slices.iter().map(|s| std::io::IoSlice::new(s)).collect();
                    match std::io::Write::write_vectored(&mut *bw, &ios) {
                        Ok(k) => {
                            let _ = bw.write_bits(0x2B, 7);
                            let bw = std::mem::ManuallyDrop::into_inner(bw);
                            if let Ok(be) = bw.into_inner() {
                                got = Some((k, crate::adapters::bytes_of::<$W>(&be.into_inner())));
                            }
                        }
                        Err(er) => fail!("io_write_vectored/err", "write_vectored returned Err({})", er),
                    }
                }};
            }
            macro_rules! go_e {
                ($W:ty) => {
                    match e {
                        En::BE => go!(BE, $W),
                        En::LE => go!(LE, $W),
                    }
                };
            }
            match w {
                Wd::U8 => go_e!(u8),
                Wd::U16 => go_e!(u16),
                Wd::U32 => go_e!(u32),
                Wd::U64 => go_e!(u64),
                Wd::U128 => go_e!(u128),
            }
            let Some((k, bytes)) = got else { fail!("io_write_vectored/into_inner", "into_inner failed") };
            if k > concat.len() || (k == 0 && !concat.is_empty()) {
                fail!("io_write_vectored/count", "write_vectored reported {} bytes for slices totalling {}", k, concat.len());
            }
            let mut m = vcore::BitVec::new();
            m.push_field((0x1555_5555_5555_5555u64 & mask64(off)) as u128, off, *e);
            for &b in &concat[..k] {
                m.push_field(b as u128, 8, *e);
            }
            m.push_field(0x2B, 7, *e);
            m.pad_to(w.bits());
            if bytes != m.to_bytes(*e) {
                fail!(
                    format!("io_write_vectored/bytes/w{}", w.bits()),
                    "write_vectored of {} slices ({} bytes) at bit {} reported {} bytes, but the stream does not hold exactly those: got {}, expected {}",
                    slices.len(), concat.len(), off, k, hex(&bytes), hex(&m.to_bytes(*e))
                );
            }
            o.nt("vectored_write");
        }
        Case::Read(rc) => {
            let (n, _b) = check_rcase(rc, env)?;
            let mut any = false;
            fn walk(ops: &[ROp], f: &mut dyn FnMut(usize)) {
                for op in ops {
                    match op {
                        ROp::IoRead(k) => f(*k as usize),
                        ROp::Fork(s) => walk(s, f),
                        _ => {}
                    }
                }
            }
            let wb = rc.cfg.r.word().bytes();
            walk(&rc.ops, &mut |k| {
                if k % 8 != 0 || k % wb != 0 {
                    any = true;
                }
            });
            if any {
                o.nt("length_not_multiple_of_8_or_word");
            }
            if n.nonempty_refill {
                o.nt("offset_not_word_aligned");
            }
            if n.hit_end_error {
                o.label("strict_end_error");
            }
        }
    }
    Ok(o)
}

fn data(n: usize, salt: u64) -> Vec<u8> {
    let mut r = Rng::new(salt);
    (0..n).map(|_| r.next() as u8).collect()
}

fn run(ctx: &Ctx, env: &Env) -> Stats {
    let mut jobs: Vec<Job> = vec![];
    for e in En::ALL {
        for w in Wd::WRITER {
            jobs.push(Box::new(move |ctx: &Ctx| {
                let mut part = Part::new(ctx, format!("write/{}/w{}", e.name(), w.bits()), "every slice length 0..=40 x every offset 0..=2W", true);
                let f = |c: &Case| check_case(c, env);
                let mut k = 0usize;
                for len in 0..=40usize {
                    for off in 0..=(2 * w.bits()) {
                        k += 1;
                        let backend = [WBackend::VecBorrowed, WBackend::Recording, WBackend::Adapter, WBackend::Slice, WBackend::VecOwned][k % 5];
                        let after = match k % 6 {
                            0 | 3 => vec![WOp::Unary(3), WOp::IoWrite(data(k % 11, k as u64))],
                            1 => vec![WOp::IoFlush, WOp::IoWrite(data(k % 7, k as u64))],
                            4 => vec![WOp::IoFlush, WOp::IoFlush, WOp::Unary(2)],
                            _ => vec![],
                        };
                        part.check(&Case::Write { cfg: WCfg::new(e, w, backend), off: off as u16, slice: data(len, (len * 1000 + off) as u64 + ctx.seed), write_all: k % 2 == 0, after }, &f);
                    }
                }
                // io::Write::flush at word-aligned and unaligned positions (fresh writer, after whole words, twice in a
                // row), followed by further writes: a flush with nothing pending must not emit anything
                for off in [0usize, 3, w.bits() - 1, w.bits(), 2 * w.bits()] {
                    for len in [0usize, 1, w.bytes(), 2 * w.bytes()] {
                        for (j, backend) in [WBackend::VecBorrowed, WBackend::Recording, WBackend::Adapter, WBackend::VecOwned].into_iter().enumerate() {
                            let after = vec![WOp::IoFlush, WOp::Bits { v: 5, n: 3 }, WOp::IoFlush, WOp::IoFlush, WOp::IoWrite(data(3 + j, 77)), WOp::Flush, WOp::IoFlush, WOp::Unary(1)];
                            part.check(&Case::Write { cfg: WCfg::new(e, w, backend), off: off as u16, slice: data(len, (len + off) as u64), write_all: false, after }, &f);
                        }
                    }
                }
                part.finish()
            }));
        }
        jobs.push(Box::new(move |ctx: &Ctx| {
            let mut part = Part::new(ctx, format!("write_vectored/{}", e.name()), "io::Write::write_vectored with 0..=3 slices of length 0..=9 at several offsets, every writer word", true);
            let f = |c: &Case| check_case(c, env);
            for w in Wd::WRITER {
                for off in [0u8, 3, 8, 13] {
                    for lens in [vec![], vec![0usize], vec![3], vec![0, 4], vec![2, 5], vec![5, 0, 1], vec![9, 8, 3], vec![1, 1, 1]] {
                        let slices: Vec<Vec<u8>> = lens.iter().enumerate().map(|(i, &l)| data(l, (i * 31 + l) as u64 + off as u64)).collect();
                        part.check(&Case::WriteV { e, w, off, slices }, &f);
                    }
                }
            }
            part.finish()
        }));
        for r in RKind::ALL {
            for backend in [RBackend::InfBorrowed, RBackend::Strict, RBackend::AdapterCursor, RBackend::VecReadback] {
                jobs.push(Box::new(move |ctx: &Ctx| {
                    let cfg = RCfg::new(e, r, backend);
                    let w = r.word().bits();
                    let mut part = Part::new(ctx, format!("read/{}", cfg.name()), "every buffer length 0..=40 x every offset 0..=2W+1", true);
                    let f = |c: &Case| check_case(c, env);
                    let bits = (2 * w + 2 + 41 * 8 + 128) as u32;
                    for len in 0..=40u16 {
                        for off in 0..=(2 * w + 1) {
                            // variant 0: plain; 1: after a look-ahead refill (more than the needed bits buffered);
                            // 2: the data ends right after the bytes requested (no bit beyond them may be needed)
                            for variant in 0..3 {
                                let mut ops = vec![];
                                let mut left = off;
                                while left > 0 {
                                    let c = left.min(64);
                                    ops.push(ROp::Bits(c as u8));
                                    left -= c;
                                }
                                if variant == 1 {
                                    ops.push(ROp::Peek(r.peek_max() as u8));
                                }
                                ops.push(ROp::IoRead(len));
                                let seed = (len as u64) << 16 | off as u64 ^ ctx.seed;
                                if variant == 2 {
                                    let need = off + 8 * len as usize;
                                    let img = Img::Pattern { pat: Pat::Random, bits: need as u32, seed, zero_from: None, one_at: None };
                                    part.check(&Case::Read(RCase { cfg, img, cut_words: None, ops: with_pos(ops), free: false }), &f);
                                } else {
                                    ops.push(ROp::Bits(11));
                                    ops.push(ROp::IoRead(3));
                                    let img = Img::Pattern { pat: Pat::Random, bits, seed, zero_from: None, one_at: None };
                                    part.check(&Case::Read(RCase { cfg, img, cut_words: None, ops: with_pos(ops), free: false }), &f);
                                }
                            }
                        }
                    }
                    part.finish()
                }));
            }
        }
    }
    let n_rand = ctx.t(20_000u64, 2_000_000);
    for j in 0..8 {
        jobs.push(Box::new(move |ctx: &Ctx| {
            let mut part = Part::new(ctx, format!("random/write/{}", j), "proptest byte strings decoded into (writer cfg, offset, slice up to 600 bytes, following operations)", false);
            part.random(n_rand, 700, &|s: &mut Src| gen_write(s), &|c: &Case| check_case(c, env));
            part.finish()
        }));
        jobs.push(Box::new(move |ctx: &Ctx| {
            let mut part = Part::new(ctx, format!("random/read/{}", j), "proptest byte strings decoded into reader histories with io::Read calls", false);
            part.random(n_rand, 300, &|s: &mut Src| gen_read(s), &|c: &Case| check_case(c, env));
            part.finish()
        }));
    }
    run_jobs(ctx, jobs)
}

pub fn gen_write(s: &mut Src) -> Case {
    let e = gen_en(s);
    let w = gen_wd_writer(s);
    let backend = s.pick(&WBackend::ALL);
    let off = s.below(2 * w.bits() + 1) as u16;
    let len = match s.weighted(&[4, 2, 1]) {
        0 => s.below(41),
        1 => s.below(130),
        _ => s.below(601),
    };
    let slice: Vec<u8> = (0..len).map(|_| s.u8()).collect();
    let n_after = s.below(4);
    let after = (0..n_after)
        .map(|_| {
            match s.below(5) {
                0 | 1 => {
                    let l = s.below(20);
                    WOp::IoWrite((0..l).map(|_| s.u8()).collect())
                }
                2 => WOp::IoFlush,
                _ => gen_wop_prim(s, w.bits(), false, true),
            }
        })
        .collect();
    Case::Write { cfg: WCfg::new(e, w, backend), off, slice, write_all: s.bool(), after }
}

pub fn gen_read(s: &mut Src) -> Case {
    let cfg = gen_rcfg(s, &[RBackend::InfBorrowed, RBackend::InfOwned, RBackend::Strict, RBackend::AdapterCursor, RBackend::AdapterBufReader, RBackend::VecReadback]);
    let bits = (s.range(2, 60) * 64) as u32;
    let n = s.range(1, 14);
    let ops = (0..n)
        .map(|_| {
            if s.below(3) == 0 {
                ROp::IoRead(match s.weighted(&[3, 1]) {
                    0 => s.below(41) as u16,
                    _ => s.below(200) as u16,
                })
            } else {
                gen_rop_prim(s, cfg.r, 0)
            }
        })
        .collect();
    Case::Read(RCase { cfg, img: Img::Pattern { pat: gen_pat(s), bits, seed: s.u16() as u64, zero_from: None, one_at: None }, cut_words: None, ops: with_pos(ops), free: false })
}

fn replay(v: &serde_json::Value, env: &Env) -> CheckResult {
    let c: Case = serde_json::from_value(v.clone()).map_err(|e| Failure::new("replay/parse", e.to_string()))?;
    run_guarded(&c, &|c: &Case| check_case(c, env))
}
