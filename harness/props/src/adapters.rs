//! Object-safe views of the library's readers and writers, one generic wrapper per side, plus
//! the harness-owned backends (recording word sink). All library types are instantiated here,
//! and only here, for every (endianness, word, backend, wrapper) the properties quantify over.

use crate::calls::*;
use common_traits::CastableInto;
use dsi_bitstream::codes::{delta_tables, gamma_tables, zeta_tables};
use dsi_bitstream::prelude::*;
use std::cell::RefCell;
use std::io::Cursor;
use std::marker::PhantomData;
use std::rc::Rc;
use vcore::En;

pub type R<T> = Result<T, String>;

fn es<E: std::fmt::Display>(e: E) -> String {
    format!("{}", e)
}

// ---------------------------------------------------------------------------------------------
// Object-safe traits
// ---------------------------------------------------------------------------------------------

pub trait DynR {
    fn read_bits(&mut self, n: usize) -> R<u64>;
    fn peek_bits(&mut self, n: usize) -> R<u64>;
    fn skip_bits(&mut self, n: usize) -> R<()>;
    fn skip_bits_after_peek(&mut self, n: usize);
    fn read_unary(&mut self) -> R<u64>;
    fn read_code(&mut self, c: &Call) -> R<u64>;
    /// `*_tables::read_table_{be,le}`: Some((value, len)) or None
    fn tab_read(&mut self, which: &str) -> Option<(u64, usize)>;
    /// `*_tables::len_table_{be,le}`
    fn tab_len(&mut self, which: &str) -> Option<usize>;
    fn bit_pos(&mut self) -> Option<R<u64>>;
    fn set_bit_pos(&mut self, p: u64) -> Option<R<()>>;
    fn io_read(&mut self, buf: &mut [u8]) -> Option<R<usize>>;
    /// the reader's own `copy_to` (optimised unless built with no_copy_impls)
    fn copy_to(&mut self, w: &mut dyn DynW, n: u64) -> R<()>;
    /// clone the reader and run `f` on the clone; false if the reader cannot be cloned
    fn fork(&mut self, f: &mut dyn FnMut(&mut dyn DynR)) -> bool;
    /// bits_read of a counting wrapper
    fn counter(&self) -> Option<usize>;
}

pub trait DynW {
    fn write_bits(&mut self, v: u64, n: usize) -> R<usize>;
    fn write_unary(&mut self, x: u64) -> R<usize>;
    fn flush(&mut self) -> R<usize>;
    fn write_code(&mut self, c: &Call, v: u64) -> R<usize>;
    /// `*_tables::write_table_{be,le}`
    fn tab_write(&mut self, which: &str, v: u64) -> R<Option<usize>>;
    fn io_write(&mut self, buf: &[u8]) -> Option<R<usize>>;
    fn io_flush(&mut self) -> Option<R<()>>;
    /// the writer's own `copy_from`
    fn copy_from(&mut self, r: &mut dyn DynR, n: u64) -> R<()>;
    /// bits_written of a counting wrapper
    fn counter(&self) -> Option<usize>;
}

// ---------------------------------------------------------------------------------------------
// Endianness-specific helpers (the table functions exist only per endianness)
// ---------------------------------------------------------------------------------------------

pub trait TabR<E: Endianness>: BitRead<E> {
    fn t_read(&mut self, which: &str) -> Option<(u64, usize)>;
    fn t_len(&mut self, which: &str) -> Option<usize>;
}

impl<B: BitRead<BE>> TabR<BE> for B {
    fn t_read(&mut self, which: &str) -> Option<(u64, usize)> {
        match which {
            "gamma" => gamma_tables::read_table_be(self),
            "delta" => delta_tables::read_table_be(self),
            "zeta" => zeta_tables::read_table_be(self),
            _ => unreachable!(),
        }
    }
    fn t_len(&mut self, which: &str) -> Option<usize> {
        match which {
            "gamma" => gamma_tables::len_table_be(self),
            "delta" => delta_tables::len_table_be(self),
            "zeta" => zeta_tables::len_table_be(self),
            _ => unreachable!(),
        }
    }
}

impl<B: BitRead<LE>> TabR<LE> for B {
    fn t_read(&mut self, which: &str) -> Option<(u64, usize)> {
        match which {
            "gamma" => gamma_tables::read_table_le(self),
            "delta" => delta_tables::read_table_le(self),
            "zeta" => zeta_tables::read_table_le(self),
            _ => unreachable!(),
        }
    }
    fn t_len(&mut self, which: &str) -> Option<usize> {
        match which {
            "gamma" => gamma_tables::len_table_le(self),
            "delta" => delta_tables::len_table_le(self),
            "zeta" => zeta_tables::len_table_le(self),
            _ => unreachable!(),
        }
    }
}

pub trait TabW<E: Endianness>: BitWrite<E> {
    fn t_write(&mut self, which: &str, v: u64) -> Result<Option<usize>, Self::Error>;
}

impl<B: BitWrite<BE>> TabW<BE> for B {
    fn t_write(&mut self, which: &str, v: u64) -> Result<Option<usize>, Self::Error> {
        match which {
            "gamma" => gamma_tables::write_table_be(self, v),
            "delta" => delta_tables::write_table_be(self, v),
            "zeta" => zeta_tables::write_table_be(self, v),
            _ => unreachable!(),
        }
    }
}

impl<B: BitWrite<LE>> TabW<LE> for B {
    fn t_write(&mut self, which: &str, v: u64) -> Result<Option<usize>, Self::Error> {
        match which {
            "gamma" => gamma_tables::write_table_le(self, v),
            "delta" => delta_tables::write_table_le(self, v),
            "zeta" => zeta_tables::write_table_le(self, v),
            _ => unreachable!(),
        }
    }
}

// ---------------------------------------------------------------------------------------------
// Bridges: let a library reader copy into `dyn DynW`, and a library writer copy from `dyn DynR`
// ---------------------------------------------------------------------------------------------

#[derive(Debug)]
pub struct BridgeErr(pub String);
impl std::fmt::Display for BridgeErr {
    fn fmt(&self, f: &mut std::fmt::Formatter<'_>) -> std::fmt::Result {
        write!(f, "{}", self.0)
    }
}
impl std::error::Error for BridgeErr {}

pub struct WBridge<'a, E>(pub &'a mut dyn DynW, PhantomData<E>);
impl<'a, E: Endianness> BitWrite<E> for WBridge<'a, E> {
    type Error = BridgeErr;
    fn write_bits(&mut self, value: u64, n: usize) -> Result<usize, BridgeErr> {
        self.0.write_bits(value, n).map_err(BridgeErr)
    }
    fn write_unary(&mut self, value: u64) -> Result<usize, BridgeErr> {
        self.0.write_unary(value).map_err(BridgeErr)
    }
    fn flush(&mut self) -> Result<usize, BridgeErr> {
        self.0.flush().map_err(BridgeErr)
    }
}

pub struct RBridge<'a, E>(pub &'a mut dyn DynR, PhantomData<E>);
impl<'a, E: Endianness> BitRead<E> for RBridge<'a, E> {
    type Error = BridgeErr;
    type PeekWord = u64;
    fn read_bits(&mut self, n: usize) -> Result<u64, BridgeErr> {
        self.0.read_bits(n).map_err(BridgeErr)
    }
    fn peek_bits(&mut self, n: usize) -> Result<u64, BridgeErr> {
        self.0.peek_bits(n).map_err(BridgeErr)
    }
    fn skip_bits(&mut self, n: usize) -> Result<(), BridgeErr> {
        self.0.skip_bits(n).map_err(BridgeErr)
    }
    fn skip_bits_after_peek(&mut self, n: usize) {
        self.0.skip_bits_after_peek(n)
    }
    fn read_unary(&mut self) -> Result<u64, BridgeErr> {
        self.0.read_unary().map_err(BridgeErr)
    }
}

// ---------------------------------------------------------------------------------------------
// Generic reader wrapper
// ---------------------------------------------------------------------------------------------

pub struct RCaps<T> {
    pub pos: Option<fn(&mut T) -> R<u64>>,
    pub set_pos: Option<fn(&mut T, u64) -> R<()>>,
    pub io_read: Option<fn(&mut T, &mut [u8]) -> R<usize>>,
    pub clone: Option<fn(&T) -> T>,
    /// `Clone::clone_from` (a type may override it)
    pub clone_from: Option<fn(&mut T, &T)>,
    pub counter: Option<fn(&T) -> usize>,
}

impl<T> Clone for RCaps<T> {
    fn clone(&self) -> Self {
        *self
    }
}
impl<T> Copy for RCaps<T> {}

impl<T> RCaps<T> {
    pub fn none() -> Self {
        RCaps { pos: None, set_pos: None, io_read: None, clone: None, clone_from: None, counter: None }
    }
}

pub fn cap_pos<T: BitSeek>(t: &mut T) -> R<u64> {
    t.bit_pos().map_err(es)
}
pub fn cap_set_pos<T: BitSeek>(t: &mut T, p: u64) -> R<()> {
    t.set_bit_pos(p).map_err(es)
}
pub fn cap_io_read<T: std::io::Read>(t: &mut T, b: &mut [u8]) -> R<usize> {
    t.read(b).map_err(es)
}
pub fn cap_clone<T: Clone>(t: &T) -> T {
    t.clone()
}
pub fn cap_clone_from<T: Clone>(into: &mut T, from: &T) {
    into.clone_from(from)
}

pub struct Rd<E: Endianness, T> {
    pub r: T,
    pub caps: RCaps<T>,
    /// the clone used by the previous fork (its state has diverged): the next fork overwrites it with
    /// `clone_from` instead of making a fresh `clone`, so that both ways of cloning are exercised
    spare: Option<T>,
    _e: PhantomData<E>,
}

impl<E: Endianness, T> Rd<E, T> {
    pub fn new(r: T, caps: RCaps<T>) -> Self {
        Rd { r, caps, spare: None, _e: PhantomData }
    }
}

impl<E: Endianness, T: CodesRead<E> + TabR<E>> DynR for Rd<E, T> {
    fn read_bits(&mut self, n: usize) -> R<u64> {
        self.r.read_bits(n).map_err(es)
    }
    fn peek_bits(&mut self, n: usize) -> R<u64> {
        self.r.peek_bits(n).map(|x| x.cast()).map_err(es)
    }
    fn skip_bits(&mut self, n: usize) -> R<()> {
        self.r.skip_bits(n).map_err(es)
    }
    fn skip_bits_after_peek(&mut self, n: usize) {
        self.r.skip_bits_after_peek(n)
    }
    fn read_unary(&mut self) -> R<u64> {
        self.r.read_unary().map_err(es)
    }
    fn read_code(&mut self, c: &Call) -> R<u64> {
        let r = &mut self.r;
        match *c {
            Call::Unary => r.read_unary(),
            Call::Gamma(Tb::Default) => r.read_gamma(),
            Call::Gamma(Tb::On) => r.read_gamma_param::<true>(),
            Call::Gamma(Tb::Off) => r.read_gamma_param::<false>(),
            Call::Delta(Tb2::Default) => r.read_delta(),
            Call::Delta(Tb2::T(false, false)) => r.read_delta_param::<false, false>(),
            Call::Delta(Tb2::T(false, true)) => r.read_delta_param::<false, true>(),
            Call::Delta(Tb2::T(true, false)) => r.read_delta_param::<true, false>(),
            Call::Delta(Tb2::T(true, true)) => r.read_delta_param::<true, true>(),
            Call::Zeta3(Tb::Default) => r.read_zeta3(),
            Call::Zeta3(Tb::On) => r.read_zeta3_param::<true>(),
            Call::Zeta3(Tb::Off) => r.read_zeta3_param::<false>(),
            Call::Zeta(k, Tb::Default) => r.read_zeta(k as usize),
            Call::Zeta(k, _) => r.read_zeta_param(k as usize),
            Call::Omega => r.read_omega(),
            Call::Pi(k) => r.read_pi(k as usize),
            Call::Golomb(b) => r.read_golomb(b),
            Call::Rice(k) => r.read_rice(k as usize),
            Call::ExpGolomb(k) => r.read_exp_golomb(k as usize),
            Call::MinBin(u) => r.read_minimal_binary(u),
            Call::VByteBe => r.read_vbyte_be(),
            Call::VByteLe => r.read_vbyte_le(),
        }
        .map_err(es)
    }
    fn tab_read(&mut self, which: &str) -> Option<(u64, usize)> {
        self.r.t_read(which)
    }
    fn tab_len(&mut self, which: &str) -> Option<usize> {
        self.r.t_len(which)
    }
    fn bit_pos(&mut self) -> Option<R<u64>> {
        self.caps.pos.map(|f| f(&mut self.r))
    }
    fn set_bit_pos(&mut self, p: u64) -> Option<R<()>> {
        self.caps.set_pos.map(|f| f(&mut self.r, p))
    }
    fn io_read(&mut self, buf: &mut [u8]) -> Option<R<usize>> {
        self.caps.io_read.map(|f| f(&mut self.r, buf))
    }
    fn copy_to(&mut self, w: &mut dyn DynW, n: u64) -> R<()> {
        let mut br: WBridge<'_, E> = WBridge(w, PhantomData);
        self.r.copy_to(&mut br, n).map_err(es)
    }
    fn fork(&mut self, f: &mut dyn FnMut(&mut dyn DynR)) -> bool {
        match self.caps.clone {
            Some(cl) => {
                let inner = match (self.caps.clone_from, self.spare.take()) {
                    (Some(cf), Some(mut sp)) => {
                        cf(&mut sp, &self.r);
                        sp
                    }
                    _ => cl(&self.r),
                };
                let mut c = Rd::<E, T>::new(inner, self.caps);
                f(&mut c);
                self.spare = Some(c.r);
                true
            }
            None => false,
        }
    }
    fn counter(&self) -> Option<usize> {
        self.caps.counter.map(|f| f(&self.r))
    }
}

// ---------------------------------------------------------------------------------------------
// Generic writer wrapper
// ---------------------------------------------------------------------------------------------

pub struct WCaps<T> {
    pub io_write: Option<fn(&mut T, &[u8]) -> R<usize>>,
    pub io_flush: Option<fn(&mut T) -> R<()>>,
    pub counter: Option<fn(&T) -> usize>,
}
impl<T> Clone for WCaps<T> {
    fn clone(&self) -> Self {
        *self
    }
}
impl<T> Copy for WCaps<T> {}
impl<T> WCaps<T> {
    pub fn none() -> Self {
        WCaps { io_write: None, io_flush: None, counter: None }
    }
}
pub fn cap_io_write<T: std::io::Write>(t: &mut T, b: &[u8]) -> R<usize> {
    t.write(b).map_err(es)
}
pub fn cap_io_flush<T: std::io::Write>(t: &mut T) -> R<()> {
    std::io::Write::flush(t).map_err(es)
}

pub struct Wr<'a, E: Endianness, T> {
    pub w: &'a mut T,
    pub caps: WCaps<T>,
    _e: PhantomData<E>,
}

impl<'a, E: Endianness, T> Wr<'a, E, T> {
    pub fn new(w: &'a mut T, caps: WCaps<T>) -> Self {
        Wr { w, caps, _e: PhantomData }
    }
}

/// Everything the writer side needs, for a concrete endianness.
pub trait FullW<E: Endianness>:
    CodesWrite<E> + GammaWriteParam<E> + DeltaWriteParam<E> + ZetaWriteParam<E> + TabW<E>
{
}
impl<E: Endianness, T: CodesWrite<E> + GammaWriteParam<E> + DeltaWriteParam<E> + ZetaWriteParam<E> + TabW<E>> FullW<E> for T {}

impl<'a, E: Endianness, T: FullW<E>> DynW for Wr<'a, E, T> {
    fn write_bits(&mut self, v: u64, n: usize) -> R<usize> {
        self.w.write_bits(v, n).map_err(es)
    }
    fn write_unary(&mut self, x: u64) -> R<usize> {
        self.w.write_unary(x).map_err(es)
    }
    fn flush(&mut self) -> R<usize> {
        BitWrite::flush(self.w).map_err(es)
    }
    fn write_code(&mut self, c: &Call, v: u64) -> R<usize> {
        let w = &mut *self.w;
        match *c {
            Call::Unary => w.write_unary(v),
            Call::Gamma(Tb::Default) => w.write_gamma(v),
            Call::Gamma(Tb::On) => w.write_gamma_param::<true>(v),
            Call::Gamma(Tb::Off) => w.write_gamma_param::<false>(v),
            Call::Delta(Tb2::Default) => w.write_delta(v),
            Call::Delta(Tb2::T(false, false)) => w.write_delta_param::<false, false>(v),
            Call::Delta(Tb2::T(false, true)) => w.write_delta_param::<false, true>(v),
            Call::Delta(Tb2::T(true, false)) => w.write_delta_param::<true, false>(v),
            Call::Delta(Tb2::T(true, true)) => w.write_delta_param::<true, true>(v),
            Call::Zeta3(Tb::Default) => w.write_zeta3(v),
            Call::Zeta3(Tb::On) => w.write_zeta3_param::<true>(v),
            Call::Zeta3(Tb::Off) => w.write_zeta3_param::<false>(v),
            Call::Zeta(k, Tb::Default) => w.write_zeta(v, k as usize),
            Call::Zeta(k, Tb::On) => w.write_zeta_param::<true>(v, k as usize),
            Call::Zeta(k, Tb::Off) => w.write_zeta_param::<false>(v, k as usize),
            Call::Omega => w.write_omega(v),
            Call::Pi(k) => w.write_pi(v, k as usize),
            Call::Golomb(b) => w.write_golomb(v, b),
            Call::Rice(k) => w.write_rice(v, k as usize),
            Call::ExpGolomb(k) => w.write_exp_golomb(v, k as usize),
            Call::MinBin(u) => w.write_minimal_binary(v, u),
            Call::VByteBe => w.write_vbyte_be(v),
            Call::VByteLe => w.write_vbyte_le(v),
        }
        .map_err(es)
    }
    fn tab_write(&mut self, which: &str, v: u64) -> R<Option<usize>> {
        self.w.t_write(which, v).map_err(es)
    }
    fn io_write(&mut self, buf: &[u8]) -> Option<R<usize>> {
        self.caps.io_write.map(|f| f(self.w, buf))
    }
    fn io_flush(&mut self) -> Option<R<()>> {
        self.caps.io_flush.map(|f| f(self.w))
    }
    fn copy_from(&mut self, r: &mut dyn DynR, n: u64) -> R<()> {
        let mut br: RBridge<'_, E> = RBridge(r, PhantomData);
        self.w.copy_from(&mut br, n).map_err(es)
    }
    fn counter(&self) -> Option<usize> {
        self.caps.counter.map(|f| f(self.w))
    }
}

// ---------------------------------------------------------------------------------------------
// Recording word sink (harness-owned backend)
// ---------------------------------------------------------------------------------------------

#[derive(Default, Debug)]
pub struct RecLog {
    /// native-endian bytes of every delivered word, in order
    pub bytes: Vec<u8>,
    pub words: usize,
    pub flushes: usize,
    /// number of words delivered since the backend's flush was last called
    pub unflushed_words: usize,
}

pub struct RecWriter<W> {
    pub log: Rc<RefCell<RecLog>>,
    _w: PhantomData<W>,
}

impl<W> RecWriter<W> {
    pub fn new(log: Rc<RefCell<RecLog>>) -> Self {
        RecWriter { log, _w: PhantomData }
    }
}

macro_rules! impl_rec {
    ($($t:ty),*) => {$(
        impl WordWrite for RecWriter<$t> {
            type Error = std::convert::Infallible;
            type Word = $t;
            fn write_word(&mut self, word: $t) -> Result<(), Self::Error> {
                let mut l = self.log.borrow_mut();
                l.bytes.extend_from_slice(&word.to_ne_bytes());
                l.words += 1;
                l.unflushed_words += 1;
                Ok(())
            }
            fn flush(&mut self) -> Result<(), Self::Error> {
                let mut l = self.log.borrow_mut();
                l.flushes += 1;
                l.unflushed_words = 0;
                Ok(())
            }
        }
    )*};
}
impl_rec!(u8, u16, u32, u64, u128);

/// A byte sink that accepts at most `.1` bytes per `write` call.
pub struct ChunkSink(pub Rc<RefCell<Vec<u8>>>, pub usize);
impl std::io::Write for ChunkSink {
    fn write(&mut self, buf: &[u8]) -> std::io::Result<usize> {
        let k = buf.len().min(self.1);
        self.0.borrow_mut().extend_from_slice(&buf[..k]);
        Ok(k)
    }
    fn flush(&mut self) -> std::io::Result<()> {
        Ok(())
    }
}

// ---------------------------------------------------------------------------------------------
// Word <-> byte images
// ---------------------------------------------------------------------------------------------

pub trait Wordy: Copy + Default + 'static {
    const BYTES: usize;
    fn from_ne(b: &[u8]) -> Self;
    fn push_ne(self, out: &mut Vec<u8>);
}
macro_rules! impl_wordy {
    ($($t:ty),*) => {$(
        impl Wordy for $t {
            const BYTES: usize = std::mem::size_of::<$t>();
            fn from_ne(b: &[u8]) -> Self { <$t>::from_ne_bytes(b.try_into().unwrap()) }
            fn push_ne(self, out: &mut Vec<u8>) { out.extend_from_slice(&self.to_ne_bytes()) }
        }
    )*};
}
impl_wordy!(u8, u16, u32, u64, u128);

pub fn words_of<W: Wordy>(bytes: &[u8]) -> Vec<W> {
    assert!(bytes.len() % W::BYTES == 0, "image not a multiple of the word size");
    bytes.chunks(W::BYTES).map(W::from_ne).collect()
}
pub fn bytes_of<W: Wordy>(words: &[W]) -> Vec<u8> {
    let mut v = Vec::with_capacity(words.len() * W::BYTES);
    for w in words {
        w.push_ne(&mut v);
    }
    v
}

// ---------------------------------------------------------------------------------------------
// Writers: construct, run, terminate, return the delivered bytes
// ---------------------------------------------------------------------------------------------

pub struct WRun {
    /// every byte the backend holds after termination
    pub bytes: Vec<u8>,
    /// result of the terminating flush(es): number of pending bits reported
    pub end_flush: Vec<R<usize>>,
    /// recording backend only: (bytes, words, flushes) seen by the sink
    pub rec: Option<(Vec<u8>, usize, usize)>,
}

macro_rules! for_w {
    ($wd:expr, $W:ident => $body:expr) => {
        match $wd {
            Wd::U8 => { type $W = u8; $body }
            Wd::U16 => { type $W = u16; $body }
            Wd::U32 => { type $W = u32; $body }
            Wd::U64 => { type $W = u64; $body }
            Wd::U128 => { type $W = u128; $body }
        }
    };
}
macro_rules! for_rw {
    ($wd:expr, $W:ident => $body:expr) => {
        match $wd {
            Wd::U8 => { type $W = u8; $body }
            Wd::U16 => { type $W = u16; $body }
            Wd::U32 => { type $W = u32; $body }
            Wd::U64 => { type $W = u64; $body }
            Wd::U128 => unreachable!("u128 is not a reader word"),
        }
    };
}
macro_rules! for_e {
    ($e:expr, $E:ident => $body:expr) => {
        match $e {
            En::BE => { type $E = BE; $body }
            En::LE => { type $E = LE; $body }
        }
    };
}

/// Shared log handle a recording writer exposes while the history runs.
pub type RecHandle = Rc<RefCell<RecLog>>;

/// Run `f` on a writer built per `cfg`, terminate it per `end`, return what the backend holds.
/// `cap_words` sizes the fixed slice (model-computed, D11). `rec_out` receives the recording
/// handle so the caller can inspect delivered words after every operation.
pub fn with_writer(
    cfg: WCfg,
    cap_words: usize,
    end: WEnd,
    f: &mut dyn FnMut(&mut dyn DynW, Option<&RecHandle>),
) -> WRun {
    for_e!(cfg.e, E => for_w!(cfg.w, W => with_writer_t::<E, W>(cfg, cap_words, end, f)))
}

trait WriterE: Endianness {
    fn run<WW: WordWrite>(
        backend: WW,
        wrap: WWrap,
        end: WEnd,
        f: &mut dyn FnMut(&mut dyn DynW, Option<&RecHandle>),
        rec: Option<&RecHandle>,
    ) -> (Option<WW>, Vec<R<usize>>)
    where
        u64: CastableInto<WW::Word>;
    /// CountBitWriter with PRINT = true
    fn run_print<WW: WordWrite>(backend: WW, end: WEnd, f: &mut dyn FnMut(&mut dyn DynW, Option<&RecHandle>)) -> Option<WW>
    where
        u64: CastableInto<WW::Word>;
}

macro_rules! impl_writer_e {
    ($E:ty) => {
        impl WriterE for $E {
            fn run<WW: WordWrite>(
                backend: WW,
                wrap: WWrap,
                end: WEnd,
                f: &mut dyn FnMut(&mut dyn DynW, Option<&RecHandle>),
                rec: Option<&RecHandle>,
            ) -> (Option<WW>, Vec<R<usize>>)
            where
                u64: CastableInto<WW::Word>,
            {
                // The library writer flushes (and unwraps the result) in its Drop. If the history panics, dropping
                // the writer during unwinding could panic again and abort the whole check: the writer is therefore
                // kept in a ManuallyDrop while the history runs and only dropped on the normal path.
                let bw = BufBitWriter::<$E, WW>::new(backend);
                let mut end_flush = vec![];
                match wrap {
                    WWrap::None => {
                        let mut bw = std::mem::ManuallyDrop::new(bw);
                        {
                            let caps = WCaps { io_write: Some(cap_io_write), io_flush: Some(cap_io_flush), counter: None };
                            let mut w = Wr::<$E, _>::new(&mut *bw, caps);
                            f(&mut w, rec);
                        }
                        let mut bw = std::mem::ManuallyDrop::into_inner(bw);
                        match end {
                            WEnd::IntoInner => (bw.into_inner().ok(), end_flush),
                            WEnd::UnwrapThenWrite => {
                                end_flush.push(BitWrite::write_bits(&mut bw, 0b1011, 4).map_err(es));
                                (bw.into_inner().ok(), end_flush)
                            }
                            WEnd::Drop => {
                                drop(bw);
                                (None, end_flush)
                            }
                            WEnd::FlushThenDrop => {
                                end_flush.push(BitWrite::flush(&mut bw).map_err(es));
                                drop(bw);
                                (None, end_flush)
                            }
                            WEnd::FlushTwiceThenIntoInner => {
                                end_flush.push(BitWrite::flush(&mut bw).map_err(es));
                                end_flush.push(BitWrite::flush(&mut bw).map_err(es));
                                (bw.into_inner().ok(), end_flush)
                            }
                        }
                    }
                    WWrap::Count | WWrap::CountMid => {
                        let mut bw = bw;
                        if wrap == WWrap::CountMid {
                            end_flush.push(BitWrite::write_bits(&mut bw, 0b101, 3).map_err(es));
                        }
                        let mut cw = std::mem::ManuallyDrop::new(CountBitWriter::<$E, _>::new(bw));
                        {
                            let caps = WCaps { io_write: None, io_flush: None, counter: Some(|c: &CountBitWriter<$E, BufBitWriter<$E, WW>>| c.bits_written) };
                            let mut w = Wr::<$E, _>::new(&mut *cw, caps);
                            f(&mut w, rec);
                        }
                        let mut bw = std::mem::ManuallyDrop::into_inner(cw).into_inner();
                        if end == WEnd::UnwrapThenWrite {
                            end_flush.push(BitWrite::write_bits(&mut bw, 0b1011, 4).map_err(es));
                        }
                        (bw.into_inner().ok(), end_flush)
                    }
                    WWrap::CountPrint => unreachable!("CountPrint is served by run_print"),
                    WWrap::Dbg => {
                        let mut dw = std::mem::ManuallyDrop::new(DbgBitWriter::<$E, _>::new(bw));
                        {
                            let mut w = Wr::<$E, _>::new(&mut *dw, WCaps::none());
                            f(&mut w, rec);
                        }
                        // DbgBitWriter has no into_inner: dropping it drops (and flushes) the inner writer
                        drop(std::mem::ManuallyDrop::into_inner(dw));
                        (None, end_flush)
                    }
                }
            }
            fn run_print<WW: WordWrite>(backend: WW, end: WEnd, f: &mut dyn FnMut(&mut dyn DynW, Option<&RecHandle>)) -> Option<WW>
            where
                u64: CastableInto<WW::Word>,
            {
                let bw = BufBitWriter::<$E, WW>::new(backend);
                let mut cw = std::mem::ManuallyDrop::new(CountBitWriter::<$E, _, true>::new(bw));
                {
                    let caps = WCaps { io_write: None, io_flush: None, counter: Some(|c: &CountBitWriter<$E, BufBitWriter<$E, WW>, true>| c.bits_written) };
                    let mut w = Wr::<$E, _>::new(&mut *cw, caps);
                    f(&mut w, None);
                }
                let mut bw = std::mem::ManuallyDrop::into_inner(cw).into_inner();
                if end == WEnd::UnwrapThenWrite {
                    let _ = BitWrite::write_bits(&mut bw, 0b1011, 4);
                }
                bw.into_inner().ok()
            }
        }
    };
}
impl_writer_e!(BE);
impl_writer_e!(LE);

fn with_writer_t<E: WriterE, W: Wordy + dsi_bitstream::traits::Word>(
    cfg: WCfg,
    cap_words: usize,
    end: WEnd,
    f: &mut dyn FnMut(&mut dyn DynW, Option<&RecHandle>),
) -> WRun
where
    u64: CastableInto<W>,
    RecWriter<W>: WordWrite<Word = W>,
{
    if cfg.wrap == WWrap::CountPrint {
        let b = E::run_print(MemWordWriterVec::<W, Vec<W>>::new(Vec::new()), end, f);
        let bytes = b.map(|b| bytes_of::<W>(&b.into_inner())).unwrap_or_default();
        return WRun { bytes, end_flush: vec![], rec: None };
    }
    match cfg.backend {
        WBackend::VecOwned => {
            // into_inner hands the Vec back; for Drop-style endings the Vec is lost with an owned
            // backend, so those endings use a shared-ownership shim: AsMut<Vec<W>> on a Box is
            // not available, hence owned storage is only combined with into_inner endings.
            let be = MemWordWriterVec::<W, Vec<W>>::new(Vec::new());
            let (b, ef) = E::run(be, cfg.wrap, end, f, None);
            let bytes = b.map(|b| bytes_of::<W>(&b.into_inner())).unwrap_or_default();
            WRun { bytes, end_flush: ef, rec: None }
        }
        WBackend::VecBorrowed => {
            let mut v: Vec<W> = Vec::new();
            let ef;
            {
                let be = MemWordWriterVec::<W, &mut Vec<W>>::new(&mut v);
                let (_b, e2) = E::run(be, cfg.wrap, end, f, None);
                ef = e2;
            }
            WRun { bytes: bytes_of::<W>(&v), end_flush: ef, rec: None }
        }
        WBackend::Slice => {
            let mut v: Vec<W> = vec![W::default(); cap_words];
            let ef;
            {
                let be = MemWordWriterSlice::<W, &mut [W]>::new(&mut v[..]);
                let (_b, e2) = E::run(be, cfg.wrap, end, f, None);
                ef = e2;
            }
            WRun { bytes: bytes_of::<W>(&v), end_flush: ef, rec: None }
        }
        WBackend::Adapter => {
            // Cursor<&mut Vec<u8>> so that the bytes survive every kind of termination
            let mut v: Vec<u8> = Vec::new();
            let ef;
            {
                let be = WordAdapter::<W, _>::new(Cursor::new(&mut v));
                let (_b, e2) = E::run(be, cfg.wrap, end, f, None);
                ef = e2;
            }
            WRun { bytes: v, end_flush: ef, rec: None }
        }
        WBackend::AdapterChunked => {
            let sink = Rc::new(RefCell::new(Vec::<u8>::new()));
            let be = WordAdapter::<W, _>::new(ChunkSink(sink.clone(), 3));
            let (_b, ef) = E::run(be, cfg.wrap, end, f, None);
            let bytes = sink.borrow().clone();
            WRun { bytes, end_flush: ef, rec: None }
        }
        WBackend::Recording => {
            let log: RecHandle = Rc::new(RefCell::new(RecLog::default()));
            let be = RecWriter::<W>::new(log.clone());
            let (_b, ef) = E::run(be, cfg.wrap, end, f, Some(&log));
            let l = log.borrow();
            WRun { bytes: l.bytes.clone(), end_flush: ef, rec: Some((l.bytes.clone(), l.words, l.flushes)) }
        }
    }
}

// ---------------------------------------------------------------------------------------------
// Readers
// ---------------------------------------------------------------------------------------------

trait ReaderE: Endianness {
    /// buffered reader over `wr`
    fn buf<WR>(wr: WR, nwords: usize, pre: usize, wrap: RWrap, clonable: bool, f: &mut dyn FnMut(&mut dyn DynR))
    where
        WR: WordRead + WordSeek<Error = <WR as WordRead>::Error> + MaybeClone,
        WR::Word: common_traits::DoubleType + common_traits::UpcastableInto<u64>,
        <WR::Word as common_traits::DoubleType>::DoubleType: CastableInto<u64> + std::fmt::Display;
    /// unbuffered reader over a u64 backend
    fn unbuf<WR>(wr: WR, nwords: usize, pre: usize, wrap: RWrap, clonable: bool, f: &mut dyn FnMut(&mut dyn DynR))
    where
        WR: WordRead<Word = u64> + WordSeek<Error = <WR as WordRead>::Error> + MaybeClone;
    /// CountBitReader with PRINT = true over a buffered reader
    fn buf_print<WR>(wr: WR, nwords: usize, pre: usize, f: &mut dyn FnMut(&mut dyn DynR))
    where
        WR: WordRead + WordSeek<Error = <WR as WordRead>::Error> + MaybeClone,
        WR::Word: common_traits::DoubleType + common_traits::UpcastableInto<u64>,
        <WR::Word as common_traits::DoubleType>::DoubleType: CastableInto<u64> + std::fmt::Display;
    /// CountBitReader with PRINT = true over the unbuffered reader
    fn unbuf_print<WR>(wr: WR, nwords: usize, pre: usize, f: &mut dyn FnMut(&mut dyn DynR))
    where
        WR: WordRead<Word = u64> + WordSeek<Error = <WR as WordRead>::Error> + MaybeClone;
}

/// Clone when the backend supports it (decided per type by the macro below).
pub trait MaybeClone: Sized {
    fn try_clone(&self) -> Option<Self>;
}
macro_rules! clone_yes {
    ($($t:ty),*) => {$( impl<W: dsi_bitstream::traits::Word> MaybeClone for $t { fn try_clone(&self) -> Option<Self> { Some(self.clone()) } } )*};
}
clone_yes!(
    MemWordReader<W, Vec<W>, true>,
    MemWordReader<W, Vec<W>, false>,
    WordAdapter<W, Cursor<Vec<u8>>>
);
impl<'a, W: dsi_bitstream::traits::Word> MaybeClone for MemWordReader<W, &'a [W], true> {
    fn try_clone(&self) -> Option<Self> {
        Some(self.clone())
    }
}
impl<'a, W: dsi_bitstream::traits::Word> MaybeClone for MemWordReader<W, &'a [W], false> {
    fn try_clone(&self) -> Option<Self> {
        Some(self.clone())
    }
}
impl<'a, W: dsi_bitstream::traits::Word> MaybeClone for MemWordWriterVec<W, &'a mut Vec<W>> {
    fn try_clone(&self) -> Option<Self> {
        None
    }
}
impl<'a, W: dsi_bitstream::traits::Word> MaybeClone for MemWordWriterSlice<W, &'a mut [W]> {
    fn try_clone(&self) -> Option<Self> {
        None
    }
}
impl<W: dsi_bitstream::traits::Word> MaybeClone for WordAdapter<W, std::io::BufReader<Cursor<Vec<u8>>>> {
    fn try_clone(&self) -> Option<Self> {
        None
    }
}

/// A reader that may or may not be clonable, with a uniform Clone facade for the wrapper.
/// (The library's readers derive Clone only when the backend is Clone; backends that are not
/// are wrapped so that `fork` reports "cannot clone".)
macro_rules! impl_reader_e {
    ($E:ty) => {
        impl ReaderE for $E {
            fn buf<WR>(wr: WR, nwords: usize, pre: usize, wrap: RWrap, clonable: bool, f: &mut dyn FnMut(&mut dyn DynR))
            where
                WR: WordRead + WordSeek<Error = <WR as WordRead>::Error> + MaybeClone,
                WR::Word: common_traits::DoubleType + common_traits::UpcastableInto<u64>,
                <WR::Word as common_traits::DoubleType>::DoubleType: CastableInto<u64> + std::fmt::Display,
            {
                let mut br = BufBitReader::<$E, Cl<WR>>::new(Cl::new(wr, nwords));
                if pre > 0 {
                    br.skip_bits(pre).expect("pre-wrap skip within the data");
                }
                type T<WR> = BufBitReader<$E, Cl<WR>>;
                match wrap {
                    RWrap::None => {
                        let caps = RCaps::<T<WR>> {
                            pos: Some(cap_pos),
                            set_pos: Some(cap_set_pos),
                            io_read: Some(cap_io_read),
                            clone: if clonable { Some(cap_clone) } else { None }, clone_from: if clonable { Some(cap_clone_from) } else { None },
                            counter: None,
                        };
                        f(&mut Rd::<$E, _>::new(br, caps));
                    }
                    RWrap::Count => {
                        let cr = CountBitReader::<$E, _>::new(br);
                        let caps = RCaps::<CountBitReader<$E, T<WR>>> {
                            pos: Some(cap_pos),
                            set_pos: Some(cap_set_pos),
                            io_read: None,
                            clone: if clonable { Some(cap_clone) } else { None }, clone_from: if clonable { Some(cap_clone_from) } else { None },
                            counter: Some(|c| c.bits_read),
                        };
                        f(&mut Rd::<$E, _>::new(cr, caps));
                    }
                    RWrap::CountPrint => unreachable!("CountPrint is served by buf_print"),
                    RWrap::Dbg => {
                        // position observed through a counting layer *under* the tracing wrapper
                        let dr = DbgBitReader::<$E, _>::new(br);
                        let caps = RCaps::<DbgBitReader<$E, T<WR>>> {
                            pos: None,
                            set_pos: None,
                            io_read: None,
                            clone: if clonable { Some(cap_clone) } else { None }, clone_from: if clonable { Some(cap_clone_from) } else { None },
                            counter: None,
                        };
                        f(&mut Rd::<$E, _>::new(dr, caps));
                    }
                }
            }
            fn unbuf<WR>(wr: WR, nwords: usize, pre: usize, wrap: RWrap, clonable: bool, f: &mut dyn FnMut(&mut dyn DynR))
            where
                WR: WordRead<Word = u64> + WordSeek<Error = <WR as WordRead>::Error> + MaybeClone,
            {
                let mut br = BitReader::<$E, Cl<WR>>::new(Cl::new(wr, nwords));
                if pre > 0 {
                    br.skip_bits(pre).expect("pre-wrap skip within the data");
                }
                type T<WR> = BitReader<$E, Cl<WR>>;
                match wrap {
                    RWrap::None => {
                        let caps = RCaps::<T<WR>> {
                            pos: Some(cap_pos),
                            set_pos: Some(cap_set_pos),
                            io_read: Some(cap_io_read),
                            clone: if clonable { Some(cap_clone) } else { None }, clone_from: if clonable { Some(cap_clone_from) } else { None },
                            counter: None,
                        };
                        f(&mut Rd::<$E, _>::new(br, caps));
                    }
                    RWrap::Count => {
                        let cr = CountBitReader::<$E, _>::new(br);
                        let caps = RCaps::<CountBitReader<$E, T<WR>>> {
                            pos: Some(cap_pos),
                            set_pos: Some(cap_set_pos),
                            io_read: None,
                            clone: if clonable { Some(cap_clone) } else { None }, clone_from: if clonable { Some(cap_clone_from) } else { None },
                            counter: Some(|c| c.bits_read),
                        };
                        f(&mut Rd::<$E, _>::new(cr, caps));
                    }
                    RWrap::CountPrint => unreachable!("CountPrint is served by unbuf_print"),
                    RWrap::Dbg => {
                        let dr = DbgBitReader::<$E, _>::new(br);
                        let caps = RCaps::<DbgBitReader<$E, T<WR>>> { pos: None, set_pos: None, io_read: None, clone: if clonable { Some(cap_clone) } else { None }, clone_from: if clonable { Some(cap_clone_from) } else { None }, counter: None };
                        f(&mut Rd::<$E, _>::new(dr, caps));
                    }
                }
            }
            fn buf_print<WR>(wr: WR, nwords: usize, pre: usize, f: &mut dyn FnMut(&mut dyn DynR))
            where
                WR: WordRead + WordSeek<Error = <WR as WordRead>::Error> + MaybeClone,
                WR::Word: common_traits::DoubleType + common_traits::UpcastableInto<u64>,
                <WR::Word as common_traits::DoubleType>::DoubleType: CastableInto<u64> + std::fmt::Display,
            {
                let mut br = BufBitReader::<$E, Cl<WR>>::new(Cl::new(wr, nwords));
                if pre > 0 {
                    br.skip_bits(pre).expect("pre-wrap skip within the data");
                }
                let cr = CountBitReader::<$E, _, true>::new(br);
                let caps = RCaps::<CountBitReader<$E, BufBitReader<$E, Cl<WR>>, true>> {
                    pos: Some(cap_pos),
                    set_pos: Some(cap_set_pos),
                    io_read: None,
                    clone: Some(cap_clone), clone_from: Some(cap_clone_from),
                    counter: Some(|c| c.bits_read),
                };
                f(&mut Rd::<$E, _>::new(cr, caps));
            }
            fn unbuf_print<WR>(wr: WR, nwords: usize, pre: usize, f: &mut dyn FnMut(&mut dyn DynR))
            where
                WR: WordRead<Word = u64> + WordSeek<Error = <WR as WordRead>::Error> + MaybeClone,
            {
                let mut br = BitReader::<$E, Cl<WR>>::new(Cl::new(wr, nwords));
                if pre > 0 {
                    br.skip_bits(pre).expect("pre-wrap skip within the data");
                }
                let cr = CountBitReader::<$E, _, true>::new(br);
                let caps = RCaps::<CountBitReader<$E, BitReader<$E, Cl<WR>>, true>> {
                    pos: Some(cap_pos),
                    set_pos: Some(cap_set_pos),
                    io_read: None,
                    clone: Some(cap_clone), clone_from: Some(cap_clone_from),
                    counter: Some(|c| c.bits_read),
                };
                f(&mut Rd::<$E, _>::new(cr, caps));
            }
        }
    };
}

/// Uniform Clone facade: clones through MaybeClone and panics if asked to clone an unclonable
/// backend (never happens: `clonable` is computed from the same MaybeClone answer).
pub struct Cl<T> {
    pub inner: T,
    /// words read since the last seek / number of data words: a fuse against runaway reads
    reads: u64,
    limit: u64,
}
thread_local! {
    /// words a case may legitimately fetch beyond the data of a zero-extended backend, on top of the fixed
    /// allowance of the fuse (set by the check that knows the history, reset when it is done)
    pub static FUSE_EXTRA: std::cell::Cell<u64> = const { std::cell::Cell::new(0) };
}

/// Sets the extra allowance of the runaway fuse for the current thread until dropped.
pub struct FuseAllowance(u64);
impl FuseAllowance {
    /// `bits` = an upper bound of the bits the history asks the reader for
    pub fn for_bits(bits: u64) -> Self {
        let prev = FUSE_EXTRA.with(|f| f.replace(bits / 8 + 64));
        FuseAllowance(prev)
    }
}
impl Drop for FuseAllowance {
    fn drop(&mut self) {
        FUSE_EXTRA.with(|f| f.set(self.0));
    }
}

/// An upper bound of the bits a reader history requests.
pub fn rops_bits(ops: &[crate::ops::ROp]) -> u64 {
    use crate::ops::ROp;
    ops.iter()
        .map(|op| match op {
            ROp::Bits(n) => *n as u64,
            ROp::Skip(n) => *n as u64,
            ROp::Peek(n) => *n as u64,
            ROp::IoRead(n) => 8 * *n as u64,
            ROp::Fork(sub) => rops_bits(sub),
            ROp::Seek(_) | ROp::Pos => 0,
            _ => 1400,
        })
        .sum()
}

impl<T> Cl<T> {
    pub fn new(inner: T, data_words: usize) -> Self {
        Cl { inner, reads: 0, limit: data_words as u64 + 4096 + FUSE_EXTRA.with(|f| f.get()) }
    }
}
impl<T: MaybeClone> Clone for Cl<T> {
    fn clone(&self) -> Self {
        Cl { inner: self.inner.try_clone().expect("backend cannot be cloned"), reads: self.reads, limit: self.limit }
    }
}
impl<T: WordRead> WordRead for Cl<T> {
    type Error = T::Error;
    type Word = T::Word;
    #[inline(always)]
    fn read_word(&mut self) -> Result<T::Word, T::Error> {
        self.reads += 1;
        if self.reads > self.limit {
            // a zero-extending backend never ends: a reader whose state has diverged (e.g. a unary
            // read that sees only zeros) would loop forever. Turn the hang into a reportable panic.
            panic!("runaway: the reader fetched more than 4096 words beyond the data (and beyond what the history asks for) without a seek");
        }
        self.inner.read_word()
    }
}
impl<T: WordSeek> WordSeek for Cl<T> {
    type Error = T::Error;
    #[inline(always)]
    fn word_pos(&mut self) -> Result<u64, T::Error> {
        self.inner.word_pos()
    }
    #[inline(always)]
    fn set_word_pos(&mut self, p: u64) -> Result<(), T::Error> {
        self.reads = p.min(self.limit);
        self.inner.set_word_pos(p)
    }
}

impl_reader_e!(BE);
impl_reader_e!(LE);

/// Run `f` on a reader built per `cfg` over the byte image `bytes` (length must be a multiple
/// of the reader word size; callers pad with zero bits exactly as a writer's flush would).
pub fn with_reader(cfg: RCfg, bytes: &[u8], f: &mut dyn FnMut(&mut dyn DynR)) {
    match cfg.r {
        RKind::Buf(wd) => for_e!(cfg.e, E => for_rw!(wd, W => with_buf_reader::<E, W>(cfg, bytes, f))),
        RKind::Unbuf => for_e!(cfg.e, E => with_unbuf_reader::<E>(cfg, bytes, f)),
    }
}

fn with_buf_reader<E: ReaderE, W>(cfg: RCfg, bytes: &[u8], f: &mut dyn FnMut(&mut dyn DynR))
where
    W: Wordy + dsi_bitstream::traits::Word + common_traits::DoubleType + common_traits::UpcastableInto<u64>,
    <W as common_traits::DoubleType>::DoubleType: CastableInto<u64> + std::fmt::Display,
{
    let words: Vec<W> = words_of::<W>(bytes);
    let nwords = words.len();
    if cfg.wrap == RWrap::CountPrint {
        return E::buf_print(MemWordReader::<W, Vec<W>>::new(words), nwords, cfg.pre as usize, f);
    }
    match cfg.backend {
        RBackend::InfBorrowed => E::buf(MemWordReader::<W, &[W]>::new(&words[..]), nwords, cfg.pre as usize, cfg.wrap, true, f),
        RBackend::InfOwned => E::buf(MemWordReader::<W, Vec<W>>::new(words), nwords, cfg.pre as usize, cfg.wrap, true, f),
        RBackend::Strict => E::buf(MemWordReader::<W, Vec<W>, false>::new_strict(words), nwords, cfg.pre as usize, cfg.wrap, true, f),
        RBackend::VecReadback => {
            let mut v = words;
            E::buf(MemWordWriterVec::<W, &mut Vec<W>>::new(&mut v), nwords, cfg.pre as usize, cfg.wrap, false, f)
        }
        RBackend::SliceReadback => {
            let mut v = words;
            E::buf(MemWordWriterSlice::<W, &mut [W]>::new(&mut v[..]), nwords, cfg.pre as usize, cfg.wrap, false, f)
        }
        RBackend::AdapterCursor => E::buf(WordAdapter::<W, _>::new(Cursor::new(bytes.to_vec())), nwords, cfg.pre as usize, cfg.wrap, true, f),
        RBackend::AdapterBufReader => E::buf(
            WordAdapter::<W, _>::new(std::io::BufReader::with_capacity(5, Cursor::new(bytes.to_vec()))), nwords, cfg.pre as usize,
            cfg.wrap,
            false,
            f,
        ),
    }
}

fn with_unbuf_reader<E: ReaderE>(cfg: RCfg, bytes: &[u8], f: &mut dyn FnMut(&mut dyn DynR)) {
    type W = u64;
    let words: Vec<W> = words_of::<W>(bytes);
    let nwords = words.len();
    if cfg.wrap == RWrap::CountPrint {
        return E::unbuf_print(MemWordReader::<W, Vec<W>>::new(words), nwords, cfg.pre as usize, f);
    }
    match cfg.backend {
        RBackend::InfBorrowed => E::unbuf(MemWordReader::<W, &[W]>::new(&words[..]), nwords, cfg.pre as usize, cfg.wrap, true, f),
        RBackend::InfOwned => E::unbuf(MemWordReader::<W, Vec<W>>::new(words), nwords, cfg.pre as usize, cfg.wrap, true, f),
        RBackend::Strict => E::unbuf(MemWordReader::<W, Vec<W>, false>::new_strict(words), nwords, cfg.pre as usize, cfg.wrap, true, f),
        RBackend::VecReadback => {
            let mut v = words;
            E::unbuf(MemWordWriterVec::<W, &mut Vec<W>>::new(&mut v), nwords, cfg.pre as usize, cfg.wrap, false, f)
        }
        RBackend::SliceReadback => {
            let mut v = words;
            E::unbuf(MemWordWriterSlice::<W, &mut [W]>::new(&mut v[..]), nwords, cfg.pre as usize, cfg.wrap, false, f)
        }
        RBackend::AdapterCursor => E::unbuf(WordAdapter::<W, _>::new(Cursor::new(bytes.to_vec())), nwords, cfg.pre as usize, cfg.wrap, true, f),
        RBackend::AdapterBufReader => E::unbuf(
            WordAdapter::<W, _>::new(std::io::BufReader::with_capacity(5, Cursor::new(bytes.to_vec()))), nwords, cfg.pre as usize,
            cfg.wrap,
            false,
            f,
        ),
    }
}

/// Reader word size in bytes for padding purposes.
pub fn reader_word_bytes(r: RKind) -> usize {
    r.word().bytes()
}
