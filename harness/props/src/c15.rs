//! C15 — code statistics are exact, mergeable and thread-safe.

use crate::dispatch::*;
use crate::{Env, PropDef};
use dsi_bitstream::prelude::*;
use dsi_bitstream::utils::stats::{CodesStats, CodesStatsWrapper};
use serde::{Deserialize, Serialize};
use vcore::engine::*;
use vcore::refcodes;
use vcore::{fail, Code, En};

#[derive(Clone, Copy, PartialEq, Eq, Hash, Debug, Serialize, Deserialize)]
pub enum Via {
    Update,
    UpdateMany,
    WrapperWrite,
    WrapperRead,
}

#[derive(Clone, Copy, PartialEq, Eq, Hash, Debug, Serialize, Deserialize)]
pub enum Combine {
    Add,
    AddAssign,
    Plus,
    Sum,
}

#[derive(Clone, PartialEq, Eq, Hash, Debug, Serialize, Deserialize)]
pub enum Case {
    Seq {
        /// (value, multiplicity)
        items: Vec<(u64, u32)>,
        /// partial statistic each item goes to (index modulo `parts`)
        assign: Vec<u8>,
        parts: u8,
        via: Via,
        combine: Combine,
        /// use CodesStats<3,5,2,4,6> instead of the default parameters
        small_params: bool,
        /// further non-default parameter sets (overrides `small_params` when non-zero): 1 = <2,40,3,2,1>
        /// (more Golomb moduli than 2^RICE), 2 = <0,0,0,0,0> (no parameterised code tracked), 3 = <1,1,1,1,1>,
        /// 4 = <0,4,0,2,0> (the largest Golomb modulus is 2^RICE, which no Rice entry covers)
        #[serde(default)]
        params: u8,
        /// every multiplicity is multiplied by 2^scale (observed through update_many only): multiplicities beyond 2^32
        #[serde(default)]
        scale: u8,
    },
    /// `threads` OS threads write their share of the items through one shared wrapper
    Threads { items: Vec<(u64, u32)>, threads: u8 },
}

pub const DEF: PropDef = PropDef {
    id: "C15",
    rule: "Cases are multisets of (value, multiplicity) pairs (small values, values around powers of two, large values; built with a running \
budget so that every tracked total stays below 2^62, D13), a random split into 1..=8 partial statistics, a way of combining them (add, +=, +, \
sum), a way of observing (update one by one, update_many, CodesStatsWrapper on writes, CodesStatsWrapper on reads), default or non-default \
const parameters (CodesStats<3,5,2,4,6>, <2,40,3,2,1> with more Golomb moduli than 2^RICE, <0,0,0,0,0>, <1,1,1,1,1>, <0,4,0,2,0>; every value below 64 and every pair of values below 8 on each of them; multiplicities scaled by 2^31..2^40 through update_many). Oracle: per tracked code the total equals the sum of reference lengths (u128) with the index mapping \
written from the documentation (zeta[i] = zeta_{i+1}, golomb[i] = b i+1, exp_golomb[i] = k i, rice[i] = log2_b i, pi[i] = k i+2), total = number \
of elements, merging == observing the union, best_code() returns a code whose reference total is the minimum over all tracked totals with that \
minimum as cost, and actually encoding the multiset with the returned Codes value through the library's writer produces exactly that many bits. \
Concurrent part: T = 2..=16 OS threads share one &CodesStatsWrapper and each writes its share to its own writer behind a barrier; the result \
must equal the sequential reference (order independent by construction). Non-trivial: more than one partial statistic, or a multiplicity > 1, \
or a value >= 2^32, or threads; distinct = distinct case hashes.",
    assumptions: &[
        "reference lengths (vcore::refcodes::len)",
        "the thread schedule is not controlled: the concurrent part is a contention stress, strong against lost updates, blind to a race that needs one specific interleaving",
    ],
    run,
    replay,
    from_bytes: None,
};

struct RefTotals {
    total: u128,
    unary: u128,
    gamma: u128,
    delta: u128,
    omega: u128,
    vbyte: u128,
    zeta: Vec<u128>,
    golomb: Vec<u128>,
    exp_golomb: Vec<u128>,
    rice: Vec<u128>,
    pi: Vec<u128>,
}

fn ref_totals(items: &[(u64, u32)], scale: u32, nz: usize, ng: usize, ne: usize, nr: usize, np: usize) -> RefTotals {
    let mut t = RefTotals { total: 0, unary: 0, gamma: 0, delta: 0, omega: 0, vbyte: 0, zeta: vec![0; nz], golomb: vec![0; ng], exp_golomb: vec![0; ne], rice: vec![0; nr], pi: vec![0; np] };
    for &(v, c) in items {
        let c = (c as u128) << scale;
        let l = |code: Code| refcodes::len(code, v) as u128;
        t.total += c;
        t.unary += (v as u128 + 1) * c;
        t.gamma += l(Code::Gamma) * c;
        t.delta += l(Code::Delta) * c;
        t.omega += l(Code::Omega) * c;
        t.vbyte += l(Code::VByteBe) * c;
        for i in 0..nz {
            t.zeta[i] += l(Code::Zeta(i as u32 + 1)) * c;
        }
        for i in 0..ng {
            t.golomb[i] += l(Code::Golomb(i as u64 + 1)) * c;
        }
        for i in 0..ne {
            t.exp_golomb[i] += l(Code::ExpGolomb(i as u32)) * c;
        }
        for i in 0..nr {
            t.rice[i] += l(Code::Rice(i as u32)) * c;
        }
        for i in 0..np {
            t.pi[i] += l(Code::Pi(i as u32 + 2)) * c;
        }
    }
    t
}

fn tracked(t: &RefTotals) -> Vec<(Code, u128)> {
    let mut v = vec![(Code::Unary, t.unary), (Code::Gamma, t.gamma), (Code::Delta, t.delta), (Code::Omega, t.omega), (Code::VByteBe, t.vbyte)];
    for (i, &x) in t.zeta.iter().enumerate() {
        v.push((Code::Zeta(i as u32 + 1), x));
    }
    for (i, &x) in t.golomb.iter().enumerate() {
        v.push((Code::Golomb(i as u64 + 1), x));
    }
    for (i, &x) in t.exp_golomb.iter().enumerate() {
        v.push((Code::ExpGolomb(i as u32), x));
    }
    for (i, &x) in t.rice.iter().enumerate() {
        v.push((Code::Rice(i as u32), x));
    }
    for (i, &x) in t.pi.iter().enumerate() {
        v.push((Code::Pi(i as u32 + 2), x));
    }
    v
}

fn compare<const Z: usize, const G: usize, const E: usize, const RR: usize, const P: usize>(s: &CodesStats<Z, G, E, RR, P>, items: &[(u64, u32)], scale: u32, how: &str) -> Result<(), Failure> {
    let t = ref_totals(items, scale, Z, G, E, RR, P);
    let ck = |name: String, got: u64, exp: u128| -> Result<(), Failure> {
        if got as u128 != exp {
            Err(Failure::new(format!("total/{}", name.split('[').next().unwrap()), format!("{} ({}): statistics hold {}, reference {} for items {:?}", name, how, got, exp, &items[..items.len().min(6)])))
        } else {
            Ok(())
        }
    };
    ck("total".into(), s.total, t.total)?;
    ck("unary".into(), s.unary, t.unary)?;
    ck("gamma".into(), s.gamma, t.gamma)?;
    ck("delta".into(), s.delta, t.delta)?;
    ck("omega".into(), s.omega, t.omega)?;
    ck("vbyte".into(), s.vbyte, t.vbyte)?;
    for i in 0..Z {
        ck(format!("zeta[{}]", i), s.zeta[i], t.zeta[i])?;
    }
    for i in 0..G {
        ck(format!("golomb[{}]", i), s.golomb[i], t.golomb[i])?;
    }
    for i in 0..E {
        ck(format!("exp_golomb[{}]", i), s.exp_golomb[i], t.exp_golomb[i])?;
    }
    for i in 0..RR {
        ck(format!("rice[{}]", i), s.rice[i], t.rice[i])?;
    }
    for i in 0..P {
        ck(format!("pi[{}]", i), s.pi[i], t.pi[i])?;
    }
    // best code
    let (code, cost) = s.best_code();
    let tr = tracked(&t);
    let min = tr.iter().map(|x| x.1).min().unwrap();
    let named = from_codes(&code);
    let named_total = tr.iter().find(|x| x.0 == named).map(|x| x.1);
    if cost as u128 != min || named_total != Some(min) {
        return Err(Failure::new("best_code", format!("best_code() = ({:?}, {}), but the minimum reference total is {} and the total of {:?} is {:?} ({})", code, cost, min, named, named_total, how)));
    }
    // actually encode the multiset with the returned code
    let mut bits: u128 = 0;
    for &(v, c) in items {
        let (_, l) = d_write(En::LE, Disp::CodesDyn, named, None, 0, v).map_err(|e| Failure::new("best_code/encode", e))?;
        bits += l as u128 * ((c as u128) << scale);
    }
    if bits != cost as u128 {
        return Err(Failure::new("best_code/real_encoding", format!("encoding the multiset with {:?} takes {} bits, best_code() promised {}", code, bits, cost)));
    }
    Ok(())
}

fn observe<const Z: usize, const G: usize, const E: usize, const RR: usize, const P: usize>(items: &[(u64, u32)], scale: u32, via: Via) -> Result<CodesStats<Z, G, E, RR, P>, Failure> {
    let mut s = CodesStats::<Z, G, E, RR, P>::default();
    match via {
        Via::Update => {
            for &(v, c) in items {
                for _ in 0..c {
                    if s.update(v) != v {
                        fail!("update/ret", "update({}) did not return its argument", v);
                    }
                }
            }
        }
        Via::UpdateMany => {
            for &(v, c) in items {
                if s.update_many(v, (c as u64) << scale) != v {
                    fail!("update/ret", "update_many({}) did not return its argument", v);
                }
            }
        }
        Via::WrapperWrite | Via::WrapperRead => {
            // delta accepts every value up to 2^64-2
            let w = CodesStatsWrapper::<Codes, Z, G, E, RR, P>::new(Codes::Delta);
            let mut bw = BufBitWriter::<LE, _>::new(MemWordWriterVec::new(Vec::<u64>::new()));
            let plain = Codes::Delta;
            for &(v, c) in items {
                for _ in 0..c {
                    if via == Via::WrapperWrite {
                        DynamicCodeWrite::write(&w, &mut bw, v).map_err(|e| Failure::new("wrapper/write", e.to_string()))?;
                    } else {
                        plain.write(&mut bw, v).map_err(|e| Failure::new("wrapper/write", e.to_string()))?;
                    }
                }
            }
            let words = bw.into_inner().unwrap().into_inner();
            if via == Via::WrapperRead {
                let mut br = BufBitReader::<LE, _>::new(MemWordReader::new_strict(&words[..]));
                for &(v, c) in items {
                    for _ in 0..c {
                        let got = DynamicCodeRead::read(&w, &mut br).map_err(|e| Failure::new("wrapper/read", e.to_string()))?;
                        if got != v {
                            fail!("wrapper/read_value", "wrapper read {} instead of {}", got, v);
                        }
                    }
                }
            }
            let (_c, st) = w.into_inner();
            s = st;
        }
    }
    Ok(s)
}

fn seq<const Z: usize, const G: usize, const E: usize, const RR: usize, const P: usize>(items: &[(u64, u32)], assign: &[u8], parts: u8, via: Via, combine: Combine, scale: u32) -> Result<(), Failure> {
    // multiplicities scaled by 2^scale only make sense through update_many
    let (via, scale) = if scale > 0 { (Via::UpdateMany, scale.min(40)) } else { (via, 0) };
    let parts = parts.max(1) as usize;
    let mut groups: Vec<Vec<(u64, u32)>> = vec![vec![]; parts];
    for (i, it) in items.iter().enumerate() {
        groups[assign.get(i).copied().unwrap_or(0) as usize % parts].push(*it);
    }
    let mut partials: Vec<CodesStats<Z, G, E, RR, P>> = vec![];
    for g in &groups {
        let s = observe::<Z, G, E, RR, P>(g, scale, via)?;
        compare(&s, g, scale, "partial")?;
        partials.push(s);
    }
    let merged: CodesStats<Z, G, E, RR, P> = match combine {
        Combine::Add => {
            let mut acc = CodesStats::<Z, G, E, RR, P>::default();
            for p in &partials {
                acc.add(p);
            }
            acc
        }
        Combine::AddAssign => {
            let mut acc = CodesStats::<Z, G, E, RR, P>::default();
            for p in &partials {
                acc += *p;
            }
            acc
        }
        Combine::Plus => partials.iter().fold(CodesStats::<Z, G, E, RR, P>::default(), |a, b| a + *b),
        Combine::Sum => partials.iter().copied().sum(),
    };
    compare(&merged, items, scale, &format!("{} partials merged with {:?}, observed via {:?}", parts, combine, via)).map_err(|mut f| {
        f.sig = format!("merged/{}", f.sig);
        f
    })
}

pub fn check_case(c: &Case, _env: &Env) -> CheckResult {
    let mut o = Outcome::new();
    match c {
        Case::Seq { items, assign, parts, via, combine, small_params, params, scale } => {
            match (*params, *small_params) {
                (1, _) => seq::<2, 40, 3, 2, 1>(items, assign, *parts, *via, *combine, *scale as u32)?,
                (2, _) => seq::<0, 0, 0, 0, 0>(items, assign, *parts, *via, *combine, *scale as u32)?,
                (3, _) => seq::<1, 1, 1, 1, 1>(items, assign, *parts, *via, *combine, *scale as u32)?,
                (4, _) => seq::<0, 4, 0, 2, 0>(items, assign, *parts, *via, *combine, *scale as u32)?,
                (_, true) => seq::<3, 5, 2, 4, 6>(items, assign, *parts, *via, *combine, *scale as u32)?,
                _ => seq::<10, 20, 10, 10, 10>(items, assign, *parts, *via, *combine, *scale as u32)?,
            }
            if *parts > 1 {
                o.nt("several_partials");
            }
            if items.iter().any(|x| x.1 > 1) {
                o.nt("multiplicity_gt_1");
            }
            if items.iter().any(|x| x.0 >= 1 << 32) {
                o.nt("value_ge_2^32");
            }
            if *scale > 0 {
                o.nt("multiplicities_beyond_2^32");
            }
            if *small_params || *params != 0 {
                o.label("non_default_const_parameters");
            }
            match *params {
                1 => o.label("params_2_40_3_2_1"),
                2 => o.label("params_all_zero"),
                3 => o.label("params_all_one"),
                4 => o.label("params_0_4_0_2_0"),
                _ => {}
            }
        }
        Case::Threads { items, threads } => {
            let t = (*threads).clamp(2, 16) as usize;
            let w = CodesStatsWrapper::<Codes>::new(Codes::Delta);
            let barrier = std::sync::Barrier::new(t);
            std::thread::scope(|sc| {
                for k in 0..t {
                    let w = &w;
                    let barrier = &barrier;
                    let mine: Vec<(u64, u32)> = items.iter().enumerate().filter(|(i, _)| i % t == k).map(|(_, x)| *x).collect();
                    sc.spawn(move || {
                        let mut bw = BufBitWriter::<LE, _>::new(MemWordWriterVec::new(Vec::<u64>::new()));
                        barrier.wait();
                        // even threads go through the dynamic-dispatch impl of the wrapper, odd ones through the static one
                        for (v, c) in mine {
                            for _ in 0..c {
                                if k % 2 == 0 {
                                    DynamicCodeWrite::write(w, &mut bw, v).unwrap();
                                } else {
                                    StaticCodeWrite::<LE, _>::write(w, &mut bw, v).unwrap();
                                }
                            }
                        }
                    });
                }
            });
            let (_c, st) = w.into_inner();
            compare(&st, items, 0, &format!("{} threads through one shared wrapper", t)).map_err(|mut f| {
                f.sig = format!("threads/{}", f.sig);
                f
            })?;
            o.nt("threads");
            o.units += items.iter().map(|x| x.1 as u64).sum::<u64>();
        }
    }
    Ok(o)
}

/// items under a running budget (D13): every tracked total stays far below 2^64
pub fn gen_items(s: &mut Src, max_items: usize, max_mult: u32) -> Vec<(u64, u32)> {
    let n = s.range(1, max_items);
    let mut budget: u128 = 1 << 62;
    let mut v = vec![];
    for _ in 0..n {
        let val = match s.weighted(&[5, 3, 2]) {
            0 => s.below(300) as u64,
            1 => s.near_pow2() & ((1 << 56) - 1),
            _ => s.mag64() >> 8,
        };
        let cost = val as u128 + 1; // unary dominates every other tracked length
        if cost > budget {
            continue;
        }
        let mult_cap = ((budget / cost).min(max_mult as u128)) as u32;
        let mult = match s.weighted(&[3, 2]) {
            0 => 1,
            _ => 1 + s.below(mult_cap.max(1) as usize) as u32,
        }
        .min(mult_cap.max(1));
        budget -= cost * mult as u128;
        v.push((val, mult));
    }
    if v.is_empty() {
        v.push((0, 1));
    }
    v
}

pub fn gen_case(s: &mut Src) -> Case {
    let via = s.pick(&[Via::Update, Via::UpdateMany, Via::WrapperWrite, Via::WrapperRead]);
    let max_mult = if via == Via::UpdateMany { 1_000_000 } else { 20 };
    let items = gen_items(s, 24, max_mult);
    let parts = s.range(1, 8) as u8;
    let assign = (0..items.len()).map(|_| s.u8()).collect();
    Case::Seq { items, assign, parts, via, combine: s.pick(&[Combine::Add, Combine::AddAssign, Combine::Plus, Combine::Sum]), small_params: s.below(4) == 0, params: [0u8, 0, 0, 0, 1, 4, 2, 3][s.below(8)], scale: 0 }
}

fn run(ctx: &Ctx, env: &Env) -> Stats {
    let mut jobs: Vec<Job> = vec![];
    let n_rand = ctx.t(10_000u64, 1_000_000);
    for j in 0..16 {
        jobs.push(Box::new(move |ctx: &Ctx| {
            let mut part = Part::new(ctx, format!("random/{}", j), "proptest byte strings decoded into (multiset, split, combine, observation interface)", false);
            part.random(n_rand, 400, &|s: &mut Src| gen_case(s), &|c: &Case| check_case(c, env));
            part.finish()
        }));
    }
    jobs.push(Box::new(move |ctx: &Ctx| {
        let mut part = Part::new(ctx, "single_values", "every value below 2048 and around every power of two below 2^56, alone, through update and update_many", true);
        let f = |c: &Case| check_case(c, env);
        let mut vals: Vec<u64> = (0..2048).collect();
        for i in 11..56 {
            vals.extend_from_slice(&[(1u64 << i) - 1, 1 << i, (1 << i) + 1]);
        }
        // small values and pairs of small values on every parameter set (few tracked codes: ties cannot mask a
        // wrong best code)
        for params in 0..=4u8 {
            for v in 0..64u64 {
                for mult in [1u32, 5] {
                    part.check(&Case::Seq { items: vec![(v, mult)], assign: vec![0], parts: 1, via: Via::UpdateMany, combine: Combine::Add, small_params: false, params, scale: 0 }, &f);
                }
            }
            for a in 0..8u64 {
                for b in a..8u64 {
                    part.check(&Case::Seq { items: vec![(a, 1), (b, 1)], assign: vec![0, 1], parts: 2, via: Via::Update, combine: Combine::Sum, small_params: false, params, scale: 0 }, &f);
                }
            }
        }
        // single values at the top of the 64-bit range (every total still fits 64 bits), every parameter set
        for params in 0..=4u8 {
            for v in [u64::MAX - 1, u64::MAX - 2, u64::MAX - 255, u64::MAX - 511, u64::MAX - 512, u64::MAX - 513, u64::MAX - 1024, 1 << 63, (1 << 63) - 1, (1 << 63) + 1] {
                for via in [Via::Update, Via::UpdateMany] {
                    part.check(&Case::Seq { items: vec![(v, 1)], assign: vec![0], parts: 1, via, combine: Combine::Add, small_params: false, params, scale: 0 }, &f);
                }
            }
        }
        // multiplicities of 2^32 and beyond (update_many only), small values, every parameter set
        for params in 0..=4u8 {
            for scale in [31u8, 32, 33, 40] {
                for v in [0u64, 1, 2, 5, 15] {
                    for (mult, parts) in [(1u32, 1u8), (3, 1), (1, 2)] {
                        part.check(&Case::Seq { items: vec![(v, mult), (v + 1, 1)], assign: vec![0, 1], parts, via: Via::UpdateMany, combine: Combine::AddAssign, small_params: false, params, scale }, &f);
                    }
                }
            }
        }
        for (k, v) in vals.into_iter().enumerate() {
            let via = if k % 2 == 0 { Via::Update } else { Via::UpdateMany };
            part.check(&Case::Seq { items: vec![(v, 1 + (k % 3) as u32)], assign: vec![0], parts: 1, via, combine: Combine::Add, small_params: k % 5 == 0, params: [0u8, 0, 1, 0, 2, 0, 3][k as usize % 7], scale: 0 }, &f);
        }
        part.finish()
    }));
    // the contention stress runs on its own (it spawns OS threads itself)
    let mut st = run_jobs(ctx, jobs);
    {
        let mut part = Part::new(ctx, "threads", "2..=16 threads sharing one wrapper, 10^4..10^6 updates in total", false);
        let f = |c: &Case| check_case(c, env);
        let mut r = vcore::grid::Rng::new(ctx.seed + 15);
        for round in 0..ctx.t(30, 150) {
            let threads = 2 + (round % 15) as u8;
            let n = ctx.t(400, 3000);
            let items: Vec<(u64, u32)> = (0..n).map(|_| (r.mag() >> 20, 1 + r.below(ctx.t(50, 300)) as u32)).collect();
            part.check(&Case::Threads { items, threads }, &f);
        }
        st.merge(part.finish());
    }
    st
}

fn replay(v: &serde_json::Value, env: &Env) -> CheckResult {
    let c: Case = serde_json::from_value(v.clone()).map_err(|e| Failure::new("replay/parse", e.to_string()))?;
    run_guarded(&c, &|c: &Case| check_case(c, env))
}
