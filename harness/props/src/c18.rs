//! C18 — byte-level VByte functions agree with the bit-stream codes and are complete.

use crate::calls::*;
use crate::ops::*;
use crate::{Env, PropDef};
use dsi_bitstream::prelude::*;
use serde::{Deserialize, Serialize};
use std::collections::BTreeMap;
use std::io::Cursor;
use vcore::engine::*;
use vcore::grid::Rng;
use vcore::refcodes::{vbyte_bytes, vbyte_value};
use vcore::{fail, BitVec, En};

#[derive(Clone, PartialEq, Eq, Hash, Debug, Serialize, Deserialize)]
pub enum Case {
    /// values start..start+len, both variants, io functions vs. reference
    Values { start: u64, len: u32 },
    Points { vals: Vec<u64> },
    /// all terminated byte strings with the given non-final prefix bytes (each has the continuation bit) and any final byte
    Strings { prefix: Vec<u8> },
    /// explicit terminated strings (random longer ones)
    StringList { strings: Vec<Vec<u8>> },
    /// bit-stream traits at byte-aligned positions vs. io functions
    Stream { e: En, w: Wd, r: RKind, big: bool, pre_bytes: u8, vals: Vec<u64> },
}

pub const DEF: PropDef = PropDef {
    id: "C18",
    rule: "Values: every value below 2^19 (quick) / 2^23 (thorough), every length-step boundary +-2 up to 10 bytes (2^7, 2^7+2^14, ...), 2^64-1 \
and seeded random values of all magnitudes, for both variants: vbyte_write_be/le and the generic vbyte_write::<BE|LE> must produce the reference \
byte string (complete, ungrouped 7-bit groups per the module documentation) and return its length == byte_len_vbyte == bit_len_vbyte/8; \
vbyte_read_be/le and vbyte_read::<BE|LE> must return the value and consume exactly the string (also through a sink / source that \
transfers one byte per call and interleaves ErrorKind::Interrupted, as the std::io contracts allow); the generic entry points must select the variant \
named by their endianness parameter. Streams: the bit-stream traits write_vbyte_be/le and read_vbyte_be/le at byte-aligned positions over both \
stream endiannesses, all writer words and all readers must produce / accept the same bytes. Completeness, exhaustive: every terminated byte \
string of length <= 3 (2 113 664 per variant) decodes to the reference value, consumes exactly its length, and re-encodes to the same string \
(uniqueness); plus random terminated strings up to 10 bytes whose value fits in 64 bits. Non-trivial: multi-byte codeword, or value within 2 of \
a length step; distinct = distinct batch hashes (elementary_checks counts values/strings).",
    assumptions: &["reference VByte (vcore::refcodes::vbyte_bytes / vbyte_value) written from the module documentation"],
    run,
    replay,
    from_bytes: None,
};

/// A conforming `Write` that accepts one byte per call and reports `Interrupted` on every third call.
struct Drip {
    out: Vec<u8>,
    tick: u32,
}
impl std::io::Write for Drip {
    fn write(&mut self, buf: &[u8]) -> std::io::Result<usize> {
        self.tick += 1;
        if self.tick % 3 == 0 {
            return Err(std::io::ErrorKind::Interrupted.into());
        }
        if buf.is_empty() {
            return Ok(0);
        }
        self.out.push(buf[0]);
        Ok(1)
    }
    fn flush(&mut self) -> std::io::Result<()> {
        Ok(())
    }
}
/// A conforming `Read` that hands out one byte per call and reports `Interrupted` on every second call.
struct Sip<'a> {
    data: &'a [u8],
    pos: usize,
    tick: u32,
}
impl std::io::Read for Sip<'_> {
    fn read(&mut self, buf: &mut [u8]) -> std::io::Result<usize> {
        self.tick += 1;
        if self.tick % 2 == 0 {
            return Err(std::io::ErrorKind::Interrupted.into());
        }
        if buf.is_empty() || self.pos >= self.data.len() {
            return Ok(0);
        }
        buf[0] = self.data[self.pos];
        self.pos += 1;
        Ok(1)
    }
}

fn check_value(v: u64, o: &mut Outcome) -> Result<(), Failure> {
    for big in [true, false] {
        let exp = vbyte_bytes(v, big);
        let name = if big { "be" } else { "le" };
        // the same through a byte sink / source that transfers one byte per call and interleaves Interrupted
        // (both allowed by the std::io contracts): same bytes, same count, same value, same consumption
        {
            let mut d = Drip { out: vec![], tick: 0 };
            let n = match (big, v % 2 == 0) {
                (true, true) => vbyte_write_be(v, &mut d),
                (false, true) => vbyte_write_le(v, &mut d),
                (true, false) => vbyte_write::<BE, _>(v, &mut d),
                (false, false) => vbyte_write::<LE, _>(v, &mut d),
            };
            if d.out != exp || n.as_ref().ok() != Some(&exp.len()) {
                fail!(format!("io_write_drip/{}", name), "vbyte_write ({}) of {} into a one-byte-per-call sink wrote {} and returned {:?}; reference {}", name, v, hex(&d.out), n, hex(&exp));
            }
            let mut data = exp.clone();
            data.push(0x55);
            let mut r = Sip { data: &data, pos: 0, tick: 0 };
            let got = match (big, v % 2 == 0) {
                (true, true) => vbyte_read_be(&mut r),
                (false, true) => vbyte_read_le(&mut r),
                (true, false) => vbyte_read::<BE, _>(&mut r),
                (false, false) => vbyte_read::<LE, _>(&mut r),
            };
            if got.as_ref().ok() != Some(&v) || r.pos != exp.len() {
                fail!(format!("io_read_sip/{}", name), "reading {} ({}) from a one-byte-per-call source returned {:?} after consuming {} bytes; expected {} after {}", hex(&exp), name, got, r.pos, v, exp.len());
            }
        }
        let mut out: Vec<u8> = vec![];
        let n = if big { vbyte_write_be(v, &mut out) } else { vbyte_write_le(v, &mut out) };
        if out != exp || n.as_ref().ok() != Some(&exp.len()) {
            fail!(format!("io_write/{}", name), "vbyte_write_{}({}) wrote {} and returned {:?}; reference {}", name, v, hex(&out), n, hex(&exp));
        }
        let mut out2: Vec<u8> = vec![];
        let n2 = if big { vbyte_write::<BE, _>(v, &mut out2) } else { vbyte_write::<LE, _>(v, &mut out2) };
        if out2 != exp || n2.ok() != Some(exp.len()) {
            fail!(format!("io_write_generic/{}", name), "vbyte_write::<{}>({}) wrote {}; the {} variant is {}", name.to_uppercase(), v, hex(&out2), name, hex(&exp));
        }
        if byte_len_vbyte(v) != exp.len() || bit_len_vbyte(v) != 8 * exp.len() {
            fail!("len", "byte_len_vbyte({}) = {}, bit_len_vbyte = {}, reference {} bytes", v, byte_len_vbyte(v), bit_len_vbyte(v), exp.len());
        }
        // read back with trailing garbage; exactly the string must be consumed
        let mut data = exp.clone();
        data.extend_from_slice(&[0xFF, 0x80, 0x7F]);
        for generic in [false, true] {
            let mut cur = Cursor::new(&data[..]);
            let got = match (big, generic) {
                (true, false) => vbyte_read_be(&mut cur),
                (false, false) => vbyte_read_le(&mut cur),
                (true, true) => vbyte_read::<BE, _>(&mut cur),
                (false, true) => vbyte_read::<LE, _>(&mut cur),
            };
            if got.as_ref().ok() != Some(&v) || cur.position() != exp.len() as u64 {
                fail!(
                    format!("io_read{}/{}", if generic { "_generic" } else { "" }, name),
                    "reading {} ({}) returned {:?} after consuming {} bytes; expected {} after {}",
                    hex(&exp), name, got, cur.position(), v, exp.len()
                );
            }
        }
        if exp.len() > 1 {
            o.nt("multi_byte");
        }
    }
    o.units += 1;
    Ok(())
}

fn check_string(s: &[u8], o: &mut Outcome) -> Result<(), Failure> {
    for big in [true, false] {
        let name = if big { "be" } else { "le" };
        let val = vbyte_value(s, big);
        if val > u64::MAX as u128 {
            continue;
        }
        let v = val as u64;
        let mut data = s.to_vec();
        data.push(0x81);
        let mut cur = Cursor::new(&data[..]);
        let got = if big { vbyte_read_be(&mut cur) } else { vbyte_read_le(&mut cur) };
        if got.as_ref().ok() != Some(&v) || cur.position() != s.len() as u64 {
            fail!(format!("complete/read/{}", name), "string {} ({}) read as {:?} consuming {}; reference value {} consuming {}", hex(s), name, got, cur.position(), v, s.len());
        }
        let mut out: Vec<u8> = vec![];
        let _ = if big { vbyte_write_be(v, &mut out) } else { vbyte_write_le(v, &mut out) };
        if out != s {
            fail!(format!("complete/unique/{}", name), "value {} of string {} ({}) re-encodes as {}", v, hex(s), name, hex(&out));
        }
        if s.len() > 1 {
            o.nt("multi_byte");
        }
    }
    o.units += 1;
    Ok(())
}

pub fn check_case(c: &Case, env: &Env) -> CheckResult {
    let mut o = Outcome::new();
    match c {
        Case::Values { start, len } => {
            for v in *start..*start + *len as u64 {
                check_value(v, &mut o)?;
            }
        }
        Case::Points { vals } => {
            for &v in vals {
                check_value(v, &mut o)?;
                o.nt("boundary_or_random");
            }
        }
        Case::Strings { prefix } => {
            for last in 0..128u8 {
                let mut s = prefix.clone();
                s.push(last);
                check_string(&s, &mut o)?;
            }
        }
        Case::StringList { strings } => {
            for s in strings {
                check_string(s, &mut o)?;
            }
        }
        Case::Stream { e, w, r, big, pre_bytes, vals } => {
            let call = if *big { Call::VByteBe } else { Call::VByteLe };
            let mut ops: Vec<WOp> = (0..*pre_bytes).map(|i| WOp::Bits { v: 0xC3 ^ i as u64, n: 8 }).collect();
            let mut exp: Vec<u8> = (0..*pre_bytes).map(|i| 0xC3 ^ i).collect();
            for &v in vals {
                ops.push(WOp::Code { call, v });
                // what the io function writes
                let mut b = vec![];
                let _ = if *big { vbyte_write_be(v, &mut b) } else { vbyte_write_le(v, &mut b) };
                exp.extend_from_slice(&b);
            }
            let done = run_writer(WCfg::new(*e, *w, WBackend::VecBorrowed), WEnd::IntoInner, &ops).map_err(|mut f| {
                f.sig = format!("stream_w/{}", f.sig);
                f
            })?;
            if done.bytes[..exp.len()] != exp[..] {
                fail!(format!("stream/bytes/{}", if *big { "be" } else { "le" }), "bit-stream bytes {} differ from the io functions' bytes {}", hex(&done.bytes), hex(&exp));
            }
            // read the io bytes through the bit-stream traits
            let mut img = exp.clone();
            img.extend_from_slice(&[0u8; 16]);
            while img.len() % r.word().bytes() != 0 {
                img.push(0);
            }
            let model = BitVec::from_bytes(&img, *e);
            let mut starts = BTreeMap::new();
            let mut p = *pre_bytes as usize * 8;
            let mut rops: Vec<ROp> = (0..*pre_bytes).map(|_| ROp::Bits(8)).collect();
            for &v in vals {
                starts.insert(p, call.code());
                p += vcore::refcodes::len(call.code(), v);
                rops.push(ROp::Code(call));
                rops.push(ROp::Pos);
            }
            let s = RStream { cfg: RCfg::new(*e, *r, RBackend::Strict), model: &model, starts: &starts, tables: &env.tables, free_codes: &[] };
            run_reader(&s, &rops).map_err(|mut f| {
                f.sig = format!("stream_r/{}", f.sig);
                f
            })?;
            o.units += vals.len() as u64;
            o.nt("bit_stream_vs_io");
        }
    }
    Ok(o)
}

fn boundary_values() -> Vec<u64> {
    let mut v = vec![0u64, 1, 2, u64::MAX, u64::MAX - 1, u64::MAX - 2, 1 << 63, (1 << 63) - 1];
    let mut off = 0u128;
    for l in 1..=9u32 {
        off += 1u128 << (7 * l);
        if off <= u64::MAX as u128 {
            let o = off as u64;
            v.extend_from_slice(&[o - 2, o - 1, o, o + 1, o + 2]);
        }
    }
    for i in 0..64 {
        v.extend_from_slice(&[(1u64 << i).wrapping_sub(1), 1 << i, (1u64 << i) + 1]);
    }
    v
}

fn run(ctx: &Ctx, env: &Env) -> Stats {
    let mut jobs: Vec<Job> = vec![];
    let top: u64 = ctx.t(1 << 19, 1 << 23);
    for ch in 0..16u64 {
        jobs.push(Box::new(move |ctx: &Ctx| {
            let mut part = Part::new(ctx, format!("values/{}", ch), "every value below the bound", true);
            let f = |c: &Case| check_case(c, env);
            let lo = top / 16 * ch;
            let hi = top / 16 * (ch + 1);
            let mut s = lo;
            while s < hi {
                part.check(&Case::Values { start: s, len: 1024.min((hi - s) as u32) }, &f);
                s += 1024;
            }
            part.finish()
        }));
    }
    jobs.push(Box::new(move |ctx: &Ctx| {
        let mut part = Part::new(ctx, "points", "length-step boundaries +-2, powers of two +-1, extremes, random values", false);
        let f = |c: &Case| check_case(c, env);
        for b in boundary_values().chunks(64) {
            part.check(&Case::Points { vals: b.to_vec() }, &f);
        }
        let mut r = Rng::new(ctx.seed + 18);
        for _ in 0..ctx.t(200, 4000) {
            part.check(&Case::Points { vals: (0..64).map(|_| r.mag()).collect() }, &f);
        }
        part.finish()
    }));
    for a in 0..=128usize {
        jobs.push(Box::new(move |ctx: &Ctx| {
            let mut part = Part::new(ctx, format!("strings/{}", a), "every terminated byte string of length <= 3", true);
            let f = |c: &Case| check_case(c, env);
            if a == 128 {
                part.check(&Case::Strings { prefix: vec![] }, &f);
            } else {
                let a = 0x80 | a as u8;
                part.check(&Case::Strings { prefix: vec![a] }, &f);
                for b in 0x80..=0xFFu8 {
                    part.check(&Case::Strings { prefix: vec![a, b] }, &f);
                }
            }
            part.finish()
        }));
    }
    jobs.push(Box::new(move |ctx: &Ctx| {
        let mut part = Part::new(ctx, "strings/random_long", "random terminated strings of 4..=10 bytes whose value fits in 64 bits", false);
        let f = |c: &Case| check_case(c, env);
        let mut r = Rng::new(ctx.seed + 181);
        for _ in 0..ctx.t(300, 6000) {
            let strings = (0..64)
                .map(|_| {
                    let l = 4 + r.below(7) as usize;
                    let mut s: Vec<u8> = (0..l).map(|_| 0x80 | r.next() as u8).collect();
                    s[l - 1] &= 0x7F;
                    if l == 10 {
                        // keep the value within 64 bits for at least one variant most of the time
                        s[0] = 0x80 | (r.below(2) as u8);
                        s[9] = r.below(2) as u8;
                    }
                    s
                })
                .collect();
            part.check(&Case::StringList { strings }, &f);
        }
        part.finish()
    }));
    for e in En::ALL {
        jobs.push(Box::new(move |ctx: &Ctx| {
            let mut part = Part::new(ctx, format!("stream/{}", e.name()), "bit-stream traits vs io functions: all writer words x all readers x both variants x offsets", false);
            let f = |c: &Case| check_case(c, env);
            let mut r = Rng::new(ctx.seed + 77);
            let bv = boundary_values();
            for w in Wd::WRITER {
                for rk in RKind::ALL {
                    for big in [true, false] {
                        for pre in 0..ctx.t(3u8, 17) {
                            let mut vals: Vec<u64> = (0..10).map(|_| bv[r.below(bv.len() as u64) as usize]).collect();
                            vals.extend((0..6).map(|_| r.mag()));
                            part.check(&Case::Stream { e, w, r: rk, big, pre_bytes: pre, vals }, &f);
                        }
                    }
                }
            }
            part.finish()
        }));
    }
    run_jobs(ctx, jobs)
}

fn replay(v: &serde_json::Value, env: &Env) -> CheckResult {
    let c: Case = serde_json::from_value(v.clone()).map_err(|e| Failure::new("replay/parse", e.to_string()))?;
    run_guarded(&c, &|c: &Case| check_case(c, env))
}
