//! C03 — every instantaneous code round-trips at any position, in any configuration.
//! C04 — codewords equal their published definitions.

use crate::c07::with_pos;
use crate::calls::*;
use crate::gen::*;
use crate::ops::*;
use crate::{Env, PropDef};
use serde::{Deserialize, Serialize};
use std::collections::BTreeMap;
use vcore::engine::*;
use vcore::grid;
use vcore::refcodes;
use vcore::{Code, En};

#[derive(Clone, PartialEq, Eq, Hash, Debug, Serialize, Deserialize)]
pub enum It {
    /// a codeword: written with `wcall`, read back with `rcall`
    Code { wcall: Call, rcall: Call, v: u64 },
    Raw { v: u64, n: u8 },
}

/// A stream written by the library in `wcfg` and read back by the library in `rcfg`.
#[derive(Clone, PartialEq, Eq, Hash, Debug, Serialize, Deserialize)]
pub struct Case {
    pub wcfg: WCfg,
    pub rcfg: RCfg,
    /// arbitrary bits before the first item (0..=2W+1 of them)
    pub pre: Vec<(u64, u8)>,
    pub items: Vec<It>,
    /// arbitrary bits after the last item
    pub tail: (u64, u8),
}

pub const DEF: PropDef = PropDef {
    id: "C03",
    rule: "Cases are streams: 0..=2W+1 arbitrary preceding bits, then items (code, parameter, value, write table option, read table option) or \
raw fields, then arbitrary following bits; written by the library writer (endianness x word u8..u128, backends rotating) and read back by a \
library reader (buffered u8..u64 or unbuffered; zero-extended or strict backend). Parts: (a) the full value grid of every code and parameter \
(all values below 300/2000, every 2^i-2..2^i+2, domain maxima, shape-change points, random of all magnitudes; zeta k 1..=63, pi/Rice/exp-Golomb k \
0..=63, Golomb/minimal-binary moduli up to 2^64-1) streamed through rotating writer/reader pairings; (b) a code menu x every preceding offset \
0..=2W+1 x every writer/reader pairing, enumerated completely; (c) proptest-generated streams with shrinking. Oracle: round trip (value read == \
value written), bit_pos after every read == model position of the next item (the read consumed exactly the codeword), the following bits decode, \
and the written bytes equal the reference encoding (attribution). Non-trivial: an item starts off a byte boundary, or spans a reader word \
boundary, or has parameter > 10 or value >= 2^32, or is followed by another item; distinct = distinct stream hashes.",
    assumptions: &[
        "reference codecs validated by the self-test against the repository's literal vectors",
        "D5 (value domains), D6 (parameter domains), D7 (decoding tables only on readers without diagnostic), D1 (unary parts <= 600)",
    ],
    run,
    replay,
    from_bytes: Some(from_bytes),
};

pub fn writer_ops(c: &Case) -> Vec<WOp> {
    let mut ops = vec![];
    for &(v, n) in &c.pre {
        ops.push(WOp::Bits { v, n });
    }
    for it in &c.items {
        match it {
            It::Code { wcall, v, .. } => ops.push(WOp::Code { call: *wcall, v: *v }),
            It::Raw { v, n } => ops.push(WOp::Bits { v: *v, n: *n }),
        }
    }
    ops.push(WOp::Bits { v: c.tail.0, n: c.tail.1 });
    ops
}

pub fn reader_ops(c: &Case, env: &Env, replaced: &mut usize) -> Vec<ROp> {
    let mut ops = vec![];
    for &(_, n) in &c.pre {
        ops.push(ROp::Bits(n));
    }
    for it in &c.items {
        match it {
            It::Code { rcall, .. } => {
                // D7: a table option the reader warned about is replaced by the table-free call
                if env.tables.allows_call(c.rcfg.r, rcall) {
                    ops.push(ROp::Code(*rcall))
                } else {
                    *replaced += 1;
                    ops.push(ROp::Code(Call::plain(rcall.code())))
                }
            }
            It::Raw { n, .. } => ops.push(ROp::Bits(*n)),
        }
    }
    ops.push(ROp::Bits(c.tail.1));
    with_pos(ops)
}

pub fn check_case(c: &Case, env: &Env) -> CheckResult {
    let e = c.wcfg.e;
    // 1. the library writes; every step and the final bytes are compared with the reference
    let done = run_writer(c.wcfg, WEnd::IntoInner, &writer_ops(c)).map_err(|mut f| {
        f.sig = format!("w/{}", f.sig);
        f
    })?;
    // 2. the library reads back what the library wrote
    let mut bytes = done.bytes.clone();
    let rw = c.rcfg.r.word().bytes();
    while bytes.len() % rw != 0 {
        bytes.push(0);
    }
    let model = vcore::BitVec::from_bytes(&bytes, e);
    let mut starts = BTreeMap::new();
    let mut p = c.pre.iter().map(|x| x.1 as usize).sum::<usize>();
    let mut o = Outcome::new();
    let rwb = c.rcfg.r.word().bits();
    for (i, it) in c.items.iter().enumerate() {
        match it {
            It::Code { wcall, v, .. } => {
                let code = wcall.code();
                starts.insert(p, code);
                let l = refcodes::len(code, *v);
                if p % 8 != 0 {
                    o.nt("starts_off_byte_boundary");
                }
                if l > 0 && p / rwb != (p + l - 1) / rwb {
                    o.nt("spans_reader_word_boundary");
                }
                if code.param() > 10 {
                    o.nt("parameter_gt_10");
                }
                if *v >= 1 << 32 {
                    o.nt("value_ge_2^32");
                }
                if i + 1 < c.items.len() {
                    o.nt("followed_by_item");
                }
                p += l;
            }
            It::Raw { n, .. } => p += *n as usize,
        }
    }
    let s = RStream { cfg: c.rcfg, model: &model, starts: &starts, tables: &env.tables, free_codes: &[] };
    let mut replaced = 0;
    let rops = reader_ops(c, env, &mut replaced);
    if replaced > 0 {
        o.label("table_option_outside_reader_domain_replaced");
    }
    let n = run_reader(&s, &rops).map_err(|mut f| {
        f.sig = format!("r/{}", f.sig);
        f
    })?;
    if n.skipped_domain > 0 {
        o.label("some_reads_outside_table_domain_skipped");
    }
    if n.table_used {
        o.label("table_read");
    }
    Ok(o)
}

/// the (write, read) invocation pairs for a code: every write variant with a rotating read variant
fn call_pair(code: Code, k: usize) -> (Call, Call) {
    let v = Call::variants(code);
    (v[k % v.len()], v[(k / v.len() + k) % v.len()])
}

fn pairings() -> Vec<(Wd, RKind)> {
    let mut v = vec![];
    for w in Wd::WRITER {
        for r in RKind::ALL {
            v.push((w, r));
        }
    }
    v
}

fn wbackend(k: usize) -> WBackend {
    [WBackend::VecBorrowed, WBackend::Recording, WBackend::Adapter, WBackend::Slice, WBackend::VecOwned][k % 5]
}
fn rbackend(k: usize) -> RBackend {
    [RBackend::InfBorrowed, RBackend::Strict, RBackend::InfOwned, RBackend::AdapterCursor, RBackend::VecReadback][k % 5]
}

fn pre_bits(n: usize, salt: u64) -> Vec<(u64, u8)> {
    let mut v = vec![];
    let mut left = n;
    let mut x = salt.wrapping_mul(0x9E3779B97F4A7C15) | 1;
    while left > 0 {
        let c = left.min(64);
        x = x.rotate_left(17).wrapping_mul(0xD1342543DE82EF95);
        v.push((x & mask64(c), c as u8));
        left -= c;
    }
    v
}

fn menu_codes() -> Vec<Code> {
    vec![
        Code::Unary,
        Code::Gamma,
        Code::Delta,
        Code::Omega,
        Code::Zeta(2),
        Code::Zeta(3),
        Code::Zeta(7),
        Code::Pi(2),
        Code::Golomb(3),
        Code::Golomb(10),
        Code::Rice(3),
        Code::ExpGolomb(2),
        Code::MinBin(5),
        Code::VByteBe,
        Code::VByteLe,
    ]
}

fn run(ctx: &Ctx, env: &Env) -> Stats {
    let mut jobs: Vec<Job> = vec![];
    let pair = pairings();
    // (a) the full grid, streamed through rotating pairings
    let n_small = ctx.t(300u64, 8000);
    let codes = grid::all_codes_small();
    for e in En::ALL {
        for (ci, chunk) in codes.chunks(8).enumerate() {
            let chunk: Vec<Code> = chunk.to_vec();
            let pair = pair.clone();
            jobs.push(Box::new(move |ctx: &Ctx| {
                let mut part = Part::new(ctx, format!("grid/{}/{}", e.name(), ci), "full value grid of 8 codes streamed through rotating writer/reader pairings", false);
                let f = |c: &Case| check_case(c, env);
                let mut k = ci * 7 + ctx.seed as usize;
                for &code in &chunk {
                    let vals = grid::values_for_n(code, n_small, ctx.t(64, 400), ctx.seed);
                    for batch in vals.chunks(12) {
                        k += 1;
                        let (w, r) = pair[k % pair.len()];
                        let items = batch
                            .iter()
                            .enumerate()
                            .map(|(j, &v)| {
                                let (wcall, rcall) = call_pair(code, k + j);
                                It::Code { wcall, rcall, v }
                            })
                            .collect();
                        let case = Case {
                            wcfg: WCfg::new(e, w, wbackend(k)),
                            rcfg: RCfg::new(e, r, rbackend(k / 3)),
                            pre: pre_bits(k * 7 % (2 * r.word().bits() + 2), k as u64),
                            items,
                            tail: (0x1D3 ^ k as u64 & 0x3FF, 11),
                        };
                        part.check(&case, &f);
                    }
                }
                part.finish()
            }));
        }
    }
    // (b) code menu x every preceding offset x every pairing
    for e in En::ALL {
        for &(w, r) in &pair {
            jobs.push(Box::new(move |ctx: &Ctx| {
                let mut part = Part::new(ctx, format!("offsets/{}/w{}/{}", e.name(), w.bits(), r.name()), "code menu x values x every preceding offset 0..=2W+1", true);
                let f = |c: &Case| check_case(c, env);
                let maxw = r.word().bits().max(w.bits().min(64));
                let mut k = 0usize;
                for code in menu_codes() {
                    let vals: Vec<u64> = [0u64, 1, 6, 63, 300, 70000, (1 << 33) + 1, u64::MAX - 1]
                        .iter()
                        .take(ctx.t(5, 8))
                        .map(|&v| grid::fold(code, v))
                        .collect();
                    for call_ix in 0..Call::variants(code).len() {
                        for &v in &vals {
                            for off in 0..=(2 * maxw + 1) {
                                k += 1;
                                let vs = Call::variants(code);
                                let case = Case {
                                    wcfg: WCfg::new(e, w, wbackend(k)),
                                    rcfg: RCfg::new(e, r, rbackend(k)),
                                    pre: pre_bits(off, (off * 31 + k) as u64),
                                    items: vec![
                                        It::Code { wcall: vs[call_ix], rcall: vs[(call_ix + off) % vs.len()], v },
                                        It::Code { wcall: vs[(call_ix + 1) % vs.len()], rcall: vs[call_ix], v: vals[k % vals.len()] },
                                    ],
                                    tail: (0x2B5, 10),
                                };
                                part.check(&case, &f);
                            }
                        }
                    }
                }
                part.finish()
            }));
        }
    }
    // (c) random streams with shrinking
    let n_rand = ctx.t(30_000u64, 3_000_000);
    for j in 0..16 {
        jobs.push(Box::new(move |ctx: &Ctx| {
            let mut part = Part::new(ctx, format!("random/streams/{}", j), "proptest byte strings decoded into (writer cfg, reader cfg, offset, items, tail)", false);
            part.random(n_rand, 500, &|s: &mut Src| gen_case(s, 16), &|c: &Case| check_case(c, env));
            part.finish()
        }));
    }
    run_jobs(ctx, jobs)
}

pub fn gen_case(s: &mut Src, max_items: usize) -> Case {
    let e = gen_en(s);
    let w = gen_wd_writer(s);
    let r = gen_rkind(s);
    let wb = s.pick(&WBackend::ALL);
    let rb = s.pick(&[RBackend::InfBorrowed, RBackend::InfOwned, RBackend::Strict, RBackend::VecReadback, RBackend::SliceReadback, RBackend::AdapterCursor, RBackend::AdapterBufReader]);
    let off = s.below(2 * r.word().bits().max(w.bits().min(64)) + 2);
    let pre = pre_bits(off, s.u16() as u64);
    let n = s.range(1, max_items);
    let items = (0..n)
        .map(|_| {
            if s.below(8) == 0 {
                let n = gen_width(s, 64);
                It::Raw { v: s.u64() & mask64(n as usize), n }
            } else {
                let code = gen_code(s);
                It::Code { wcall: gen_call(s, code), rcall: gen_call(s, code), v: gen_value(s, code) }
            }
        })
        .collect();
    let tn = s.below(65) as u8;
    Case { wcfg: WCfg::new(e, w, wb), rcfg: RCfg::new(e, r, rb), pre, items, tail: (s.u64() & mask64(tn as usize), tn) }
}

fn replay(v: &serde_json::Value, env: &Env) -> CheckResult {
    let c: Case = serde_json::from_value(v.clone()).map_err(|e| Failure::new("replay/parse", e.to_string()))?;
    run_guarded(&c, &|c: &Case| check_case(c, env))
}

// =============================================================================================
// C04
// =============================================================================================

#[derive(Clone, PartialEq, Eq, Hash, Debug, Serialize, Deserialize)]
pub struct Case04 {
    pub wcfg: WCfg,
    pub pre_bits: u16,
    pub call: Call,
    /// explicit values, or a contiguous range (start, len)
    pub values: Vec<u64>,
    pub range: Option<(u64, u32)>,
}

pub const DEF04: PropDef = PropDef {
    id: "C04",
    rule: "Cases are (writer configuration, number of preceding bits 0..=W+1, code invocation incl. table option, batch of values); the library \
writes the preceding bits, the batch and a sentinel, and every return value and the resulting bytes must equal the reference encoder, which is \
written from the published definitions documented by the library (gamma = unary(floor(log2(n+1))) + n+1 without its top bit, delta via gamma, \
omega recursive blocks ending in 0, zeta_k and Golomb via unary + minimal binary, pi_k via Rice_k, exp-Golomb_k = gamma(n>>k) + k low bits, VByte \
complete 7-bit groups; little-endian: fields least-significant-bit first, omega blocks rotated by one, minimal binary's extra bit last). Parts: \
every value below 2^12 (quick) / 2^18 (thorough) for every code with parameters <= 10 (<= 16 thorough), all invocation variants, both \
endiannesses, all five writer words, preceding offset rotating over 0..=W+1 (enumerated completely); the boundary grid of every code/parameter; \
every offset 0..=W+1 for a code menu. zeta_k values are restricted to (h+1)k <= 63 as the property states. Non-trivial: codeword longer than 8 \
bits, or little-endian with a multi-bit field, or not starting on a byte boundary; distinct = distinct (configuration, offset, invocation, \
batch) hashes.",
    assumptions: &[
        "reference encoders (vcore::refcodes) written from the prose definitions in src/codes/*.rs and validated against the literal vectors of the repository's tests",
        "zeta_k claimed only where the interval bound 2^((h+1)k) fits in 64 bits",
    ],
    run: run04,
    replay: replay04,
    from_bytes: None,
};

impl Case04 {
    fn vals(&self) -> Vec<u64> {
        match self.range {
            Some((s, l)) => (s..s + l as u64).collect(),
            None => self.values.clone(),
        }
    }
}

pub fn check_case04(c: &Case04, _env: &Env) -> CheckResult {
    let code = c.call.code();
    let mut ops: Vec<WOp> = pre_bits(c.pre_bits as usize, c.pre_bits as u64 + 3).into_iter().map(|(v, n)| WOp::Bits { v, n }).collect();
    let mut o = Outcome::new();
    let mut pos = c.pre_bits as usize;
    for v in c.vals() {
        if let Code::Zeta(k) = code {
            if !refcodes::zeta_published_region(v, k) {
                o.label("zeta_outside_published_region_not_claimed");
                continue;
            }
        }
        let l = refcodes::len(code, v);
        if l > 8 {
            o.nt("codeword_longer_than_8_bits");
        }
        if c.wcfg.e == En::LE && l >= 3 && !matches!(code, Code::Unary) {
            o.nt("little_endian_multibit_field");
        }
        if pos % 8 != 0 {
            o.nt("not_on_byte_boundary");
        }
        pos += l;
        ops.push(WOp::Code { call: c.call, v });
    }
    ops.push(WOp::Bits { v: 0x35, n: 7 });
    run_writer(c.wcfg, WEnd::IntoInner, &ops)?;
    Ok(o)
}

fn small_param_codes(maxk: u32) -> Vec<Code> {
    let mut v = vec![Code::Unary, Code::Gamma, Code::Delta, Code::Omega, Code::VByteBe, Code::VByteLe];
    for k in 0..=maxk {
        if k >= 1 {
            v.push(Code::Zeta(k));
        }
        v.push(Code::Pi(k));
        v.push(Code::Rice(k));
        v.push(Code::ExpGolomb(k));
    }
    for b in 1..=(2 * maxk as u64) {
        v.push(Code::Golomb(b));
        v.push(Code::MinBin(b));
    }
    v
}

fn run04(ctx: &Ctx, env: &Env) -> Stats {
    let mut jobs: Vec<Job> = vec![];
    let top: u64 = ctx.t(1 << 12, 1 << 18);
    let maxk = ctx.t(10u32, 16);
    for e in En::ALL {
        for w in Wd::WRITER {
            // all small values
            jobs.push(Box::new(move |ctx: &Ctx| {
                let mut part = Part::new(ctx, format!("allsmall/{}/w{}", e.name(), w.bits()), "every value below the bound for every small-parameter code and invocation variant", true);
                let f = |c: &Case04| check_case04(c, env);
                let mut k = 0usize;
                for code in small_param_codes(maxk) {
                    let lim = match code {
                        Code::MinBin(u) => u.min(top),
                        Code::Unary => top.min(grid::UNARY_CAP),
                        Code::Rice(kk) => top.min((grid::UNARY_CAP + 1) << kk),
                        Code::Golomb(b) => top.min((grid::UNARY_CAP + 1) * b),
                        _ => top,
                    };
                    for call in Call::variants(code) {
                        let mut s = 0u64;
                        while s < lim {
                            let l = (lim - s).min(64) as u32;
                            k += 1;
                            let case = Case04 {
                                wcfg: WCfg::new(e, w, wbackend(k)),
                                pre_bits: (k % (w.bits() + 2)) as u16,
                                call,
                                values: vec![],
                                range: Some((s, l)),
                            };
                            part.check(&case, &f);
                            s += l as u64;
                        }
                    }
                }
                part.finish()
            }));
            // boundary grid of every code and parameter
            jobs.push(Box::new(move |ctx: &Ctx| {
                let mut part = Part::new(ctx, format!("grid/{}/w{}", e.name(), w.bits()), "boundary grid (2^i+-2, maxima, shape-change points, random) of every code and parameter", false);
                let f = |c: &Case04| check_case04(c, env);
                let mut k = 0usize;
                for code in grid::all_codes_small() {
                    let vals = grid::values_for_n(code, 0, ctx.t(32, 300), ctx.seed + 1);
                    for call in Call::variants(code) {
                        for batch in vals.chunks(32) {
                            k += 1;
                            let case = Case04 {
                                wcfg: WCfg::new(e, w, wbackend(k)),
                                pre_bits: (k * 5 % (w.bits() + 2)) as u16,
                                call,
                                values: batch.to_vec(),
                                range: None,
                            };
                            part.check(&case, &f);
                        }
                    }
                }
                part.finish()
            }));
            // every offset for a menu
            jobs.push(Box::new(move |ctx: &Ctx| {
                let mut part = Part::new(ctx, format!("offsets/{}/w{}", e.name(), w.bits()), "code menu x every preceding offset 0..=W+1", true);
                let f = |c: &Case04| check_case04(c, env);
                for code in menu_codes() {
                    for call in Call::variants(code) {
                        for off in 0..=(w.bits() + 1) {
                            let values = [0u64, 1, 2, 7, 100, 1023, 1024, 65535, 1 << 20].iter().map(|&v| grid::fold(code, v)).collect();
                            let case = Case04 { wcfg: WCfg::new(e, w, wbackend(off)), pre_bits: off as u16, call, values, range: None };
                            part.check(&case, &f);
                        }
                    }
                }
                part.finish()
            }));
        }
    }
    run_jobs(ctx, jobs)
}

fn replay04(v: &serde_json::Value, env: &Env) -> CheckResult {
    let c: Case04 = serde_json::from_value(v.clone()).map_err(|e| Failure::new("replay/parse", e.to_string()))?;
    run_guarded(&c, &|c: &Case04| check_case04(c, env))
}

fn from_bytes(data: &[u8], env: &Env) -> (serde_json::Value, CheckResult) {
    let c = gen_case(&mut Src::new(data), 24);
    let r = run_guarded(&c, &|c| check_case(c, env));
    (serde_json::to_value(&c).unwrap_or(serde_json::Value::Null), r)
}
