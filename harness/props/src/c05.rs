//! C05 — table-driven coding is observationally identical to bit-by-bit coding.

use crate::c02::{n_states, state_prefix};
use crate::calls::*;
use crate::ops::*;
use crate::streams::*;
use crate::{Env, PropDef};
use dsi_bitstream::codes::{delta_tables, gamma_tables, zeta_tables};
use serde::{Deserialize, Serialize};
use vcore::engine::*;
use vcore::refcodes;
use vcore::{fail, Code, En};

#[derive(Clone, PartialEq, Eq, Hash, Debug, Serialize, Deserialize)]
pub enum Case {
    /// reader side: a constructed stream, every table option run on a clone from the same state
    Read(RCase),
    /// writer side: every table option and the direct table call must write the reference codeword
    Write { wcfg: WCfg, pre_bits: u16, code: Code, values: Vec<u64> },
    /// length tables: len_*_param::<true> == <false> == reference
    Len { code: Code, from: u64, n: u32 },
}

pub const DEF: PropDef = PropDef {
    id: "C05",
    rule: "Reader cases: for EVERY index of every decoding table (2^9 gamma, 2^11 delta, 2^12 zeta_3 look-ahead patterns, BE and LE) the pattern \
is presented as the next bits of a stream, after every buffer state of every reader type allowed for that table (buffered readers: \
bits_in_buffer 0..2W-1 incl. more than one word buffered; unbuffered: every bit offset), followed by zeros / ones / random bits; from that one \
state every table-option combination (gamma on/off/default; delta 4 combinations + default; zeta_3 on/off/default and read_zeta(3)), the public \
helpers read_table_*/len_table_* a table-free read, and a run of seven consecutive table-driven reads (the first on the presented window, the others gamma / zeta_3 \
reads of whatever codewords the continuation bits form) are each run on a clone and must return the reference decoder's value, leave the reader \
at the reference end of the codeword, and read the same sentinel; a None from a helper must leave the reader untouched. Windows that no in-domain \
codeword can produce are counted as unreachable. Strict tail: all values below 1100 (and larger) placed so that the codeword ends in the last \
word of a strict stream at every alignment, so that the look-ahead crosses the end. Writer cases: all values 0..=WRITE_MAX+64 and around powers \
of two, every table option and the direct write_table_* call, all writer words, offsets rotating: bytes and returned lengths equal the \
reference. Length tables: len_*_param::<true> == <false> == reference for 0..=table length+64 and for values 2^k + (a table index) with k up to 63. Readers are restricted by the library's own \
diagnostics, measured at start-up (D7). Non-trivial: codeword length within +-1 of the index width, or the look-ahead crosses a reader word \
boundary or the end of a strict stream, or more than one word was buffered; distinct = distinct case hashes.",
    assumptions: &["reference decoder", "D7: (reader, table) pairs for which construction printed the DANGER diagnostic are excluded (measured from this tree)"],
    run,
    replay,
    from_bytes: None,
};

fn tab_of(code: Code) -> &'static str {
    match code {
        Code::Gamma => "gamma",
        Code::Delta => "delta",
        _ => "zeta",
    }
}

pub fn check_case(c: &Case, env: &Env) -> CheckResult {
    let mut o = Outcome::new();
    match c {
        Case::Read(rc) => {
            let (n, _b) = check_rcase(rc, env)?;
            if n.table_lookahead_crossed_end {
                o.nt("lookahead_crosses_end_of_strict_stream");
            }
            if n.multiword_buffered {
                o.nt("more_than_one_word_buffered");
            }
            if n.nonempty_refill {
                o.nt("lookahead_crosses_reader_word_boundary");
            }
            if n.table_used {
                o.label("table_used");
            }
            if n.skipped_domain > 0 {
                o.label("some_options_outside_reader_domain_skipped");
            }
            // codeword length relative to the index width
            if let Img::Items { items, .. } = &rc.img {
                let b = rc.img.build(rc.cfg.e, rc.cfg.r.word().bits(), rc.cut_words);
                for (i, it) in items.iter().enumerate() {
                    let code = match it {
                        Item::Window { code, .. } | Item::Coded { code, .. } => *code,
                        _ => continue,
                    };
                    if let Some((_, l)) = refcodes::decode(code, &b.model, b.spans[i].0, rc.cfg.e, rc.cfg.backend.zero_ext()) {
                        let rb = tab_read_bits(tab_of(code));
                        if l + 1 >= rb && l <= rb + 1 {
                            o.nt("codeword_length_within_1_of_index_width");
                        } else if l > rb {
                            o.label("codeword_longer_than_index");
                        } else {
                            o.label("codeword_shorter_than_index");
                        }
                    } else {
                        o.label("window_unreachable_in_domain");
                    }
                }
            }
        }
        Case::Write { wcfg, pre_bits, code, values } => {
            let which = tab_of(*code).to_string();
            for call in Call::variants(*code) {
                let mut ops: Vec<WOp> = vec![];
                let mut left = *pre_bits as usize;
                while left > 0 {
                    let c = left.min(64);
                    ops.push(WOp::Bits { v: 0xA5A5_5A5A_C3C3_3C3Cu64 & mask64(c), n: c as u8 });
                    left -= c;
                }
                for &v in values {
                    ops.push(WOp::Code { call, v });
                }
                ops.push(WOp::Bits { v: 0x155, n: 9 });
                run_writer(*wcfg, WEnd::IntoInner, &ops).map_err(|mut f| {
                    f.sig = format!("{:?}/{}", call, f.sig);
                    f
                })?;
            }
            // the public helper
            let mut ops: Vec<WOp> = vec![WOp::Bits { v: 1, n: (*pre_bits % 64) as u8 }];
            for &v in values {
                ops.push(WOp::TabWrite { which: which.clone(), v });
                if v > tab_code(&which).1 {
                    o.label("above_write_max");
                }
            }
            ops.push(WOp::Bits { v: 0x155, n: 9 });
            run_writer(*wcfg, WEnd::IntoInner, &ops)?;
            o.nt("write_tables");
        }
        Case::Len { code, from, n } => {
            for v in *from..*from + *n as u64 {
                let l = refcodes::len(*code, v);
                for (name, got) in crate::dispatch::direct_lens(*code, v) {
                    if got != l {
                        fail!(format!("len/{}/{}", code.family(), name), "{}({}) = {}, reference {}", name, v, got, l);
                    }
                }
            }
            o.nt("len_tables");
        }
    }
    Ok(o)
}

fn calls_table_on(code: Code) -> Call {
    match code {
        Code::Gamma => Call::Gamma(Tb::On),
        Code::Delta => Call::Delta(Tb2::T(true, true)),
        _ => Call::Zeta3(Tb::On),
    }
}

/// All the reads to try from one state: each on its own clone.
fn option_forks(code: Code) -> Vec<ROp> {
    let mut v = vec![];
    let sentinel = [ROp::Pos, ROp::Bits(13), ROp::Pos];
    let mut calls = Call::variants(code);
    if code == Code::Zeta(3) {
        calls.push(Call::Zeta(3, Tb::Default));
    }
    for call in calls {
        let mut sub = vec![ROp::Pos, ROp::Code(call)];
        sub.extend_from_slice(&sentinel);
        v.push(ROp::Fork(sub));
    }
    // several table-driven reads in a row (every one may refill the buffer by look-ahead): the codes after
    // the first are "free" gamma / zeta_3 reads over the continuation bits
    for first in [calls_table_on(code), Call::plain(code)] {
        let mut sub = vec![ROp::Code(first)];
        for k in 0..6 {
            sub.push(ROp::Code(if k % 2 == 0 { Call::Gamma(Tb::On) } else { Call::Zeta3(Tb::On) }));
            sub.push(ROp::Pos);
        }
        sub.extend_from_slice(&sentinel);
        v.push(ROp::Fork(sub));
    }
    let t = tab_of(code).to_string();
    let mut sub = vec![ROp::TabRead(t.clone())];
    sub.extend_from_slice(&sentinel);
    v.push(ROp::Fork(sub));
    let mut sub = vec![ROp::TabLen(t)];
    sub.extend_from_slice(&sentinel);
    v.push(ROp::Fork(sub));
    // and once more on the original
    v.push(ROp::Code(Call::plain(code)));
    v.extend_from_slice(&sentinel);
    v
}

fn prefix_items(used: usize, salt: u64) -> Vec<Item> {
    let mut v = vec![];
    let mut left = used;
    let mut x = salt.wrapping_mul(0x9E3779B97F4A7C15) | 1;
    while left > 0 {
        let c = left.min(64);
        x = x.rotate_left(23).wrapping_mul(0xD1342543DE82EF95);
        v.push(Item::Raw { v: x & mask64(c), n: c as u8 });
        left -= c;
    }
    v
}

fn run(ctx: &Ctx, env: &Env) -> Stats {
    let mut jobs: Vec<Job> = vec![];
    let tables: [(Code, usize); 3] = [(Code::Gamma, gamma_tables::READ_BITS), (Code::Delta, delta_tables::READ_BITS), (Code::Zeta(3), zeta_tables::READ_BITS)];
    // (a) every index of every decoding table x every buffer state
    for e in En::ALL {
        for r in RKind::ALL {
            for (code, rb) in tables {
                let allowed = env.tables.allows(r, tab_of(code));
                let n_chunks = if rb >= 11 { 4 } else { 1 };
                for ch in 0..n_chunks {
                    jobs.push(Box::new(move |ctx: &Ctx| {
                        let cfg = RCfg::new(e, r, RBackend::InfOwned);
                        let w = r.word().bits();
                        let mut part = Part::new(
                            ctx,
                            format!("index/{}/{}/{}/{}", tab_of(code), e.name(), r.name(), ch),
                            "every look-ahead pattern of the table x every buffer state x continuation {zeros, ones, random}",
                            true,
                        );
                        if !allowed {
                            part.stats.exclude("reader_warned_for_table(D7)", 1u64 << rb);
                            return part.finish();
                        }
                        let f = |c: &Case| check_case(c, env);
                        let forks = option_forks(code);
                        let states: Vec<usize> = if ctx.quick() {
                            // every state for the small readers, a stride (always incl. the extremes) for the wide ones
                            let n = n_states(r);
                            let step = if n > 64 { 2 } else { 1 };
                            (0..n).step_by(step).chain([n - 1, w.saturating_sub(1), w.min(n - 1)]).collect()
                        } else {
                            (0..n_states(r)).collect()
                        };
                        let total = 1usize << rb;
                        let lo = total * ch / n_chunks;
                        let hi = total * (ch + 1) / n_chunks;
                        for idx in lo..hi {
                            for (si, &s) in states.iter().enumerate() {
                                let (pre, used) = state_prefix(r, s);
                                // continuation rotates with the state in quick, all three in thorough
                                let conts: Vec<Pat> = if ctx.quick() { vec![[Pat::Zeros, Pat::Ones, Pat::Random][(si + idx) % 3]] } else { vec![Pat::Zeros, Pat::Ones, Pat::Random] };
                                for tail in conts {
                                    let mut items = prefix_items(used, (idx * 131 + s) as u64);
                                    items.push(Item::Window { code, bits: idx as u64, n: rb as u8 });
                                    let img = Img::Items { items, tail, tail_bits: 160, seed: idx as u64 ^ ctx.seed };
                                    // the buffer state is reached by reads on even indices and by skips on odd ones
                                    let mut ops: Vec<ROp> = if idx % 2 == 1 {
                                        pre.iter().map(|o| match o { ROp::Bits(n) => ROp::Skip(*n as u32), o => o.clone() }).collect()
                                    } else {
                                        pre.clone()
                                    };
                                    ops.extend(forks.iter().cloned());
                                    part.check(&Case::Read(RCase { cfg, img, cut_words: None, ops, free: true }), &f);
                                }
                            }
                        }
                        part.finish()
                    }));
                }
            }
        }
    }
    // (c) strict tail: the codeword ends in the last word, at every alignment
    for e in En::ALL {
        for r in RKind::ALL {
            for (code, _rb) in tables {
                let allowed = env.tables.allows(r, tab_of(code));
                jobs.push(Box::new(move |ctx: &Ctx| {
                    let w = r.word().bits();
                    let mut part = Part::new(ctx, format!("tail/{}/{}/{}", tab_of(code), e.name(), r.name()), "values x every alignment, stream cut right after the word holding the end of the codeword", true);
                    if !allowed {
                        part.stats.exclude("reader_warned_for_table(D7)", 1);
                        return part.finish();
                    }
                    let f = |c: &Case| check_case(c, env);
                    let forks = option_forks(code);
                    let mut vals: Vec<u64> = (0..ctx.t(300u64, 1100)).collect();
                    vals.extend_from_slice(&[1022, 1023, 1024, 4095, 65535, 1 << 20, (1 << 40) + 1, u64::MAX - 1]);
                    for backend in [RBackend::Strict, RBackend::AdapterCursor] {
                        let cfg = RCfg::new(e, r, backend);
                        let step = if ctx.quick() && w >= 32 { 3 } else { 1 };
                        for &v in &vals {
                            for off in (0..w).step_by(step) {
                                let mut items = prefix_items(off, v.wrapping_add(off as u64));
                                items.push(Item::Coded { code, v });
                                let img = Img::Items { items, tail: Pat::Zeros, tail_bits: 0, seed: 0 };
                                let mut ops = vec![];
                                let mut left = off;
                                while left > 0 {
                                    let c = left.min(64);
                                    ops.push(ROp::Bits(c as u8));
                                    left -= c;
                                }
                                // the sentinel reads after the codeword may hit the end: that is C09's business,
                                // here only the code reads matter, so the sentinel is dropped
                                for fk in &forks {
                                    match fk {
                                        ROp::Fork(sub) => ops.push(ROp::Fork(sub.iter().filter(|o| !matches!(o, ROp::Bits(13))).cloned().collect())),
                                        ROp::Bits(13) => {}
                                        o2 => ops.push(o2.clone()),
                                    }
                                }
                                part.check(&Case::Read(RCase { cfg, img, cut_words: None, ops, free: false }), &f);
                            }
                        }
                    }
                    part.finish()
                }));
            }
        }
    }
    // (b) encoding tables and length tables
    for e in En::ALL {
        for w in Wd::WRITER {
            jobs.push(Box::new(move |ctx: &Ctx| {
                let mut part = Part::new(ctx, format!("write/{}/w{}", e.name(), w.bits()), "all values 0..=WRITE_MAX+64 and around powers of two x every table option x direct table call", true);
                let f = |c: &Case| check_case(c, env);
                let mut k = 0usize;
                for (code, _) in tables {
                    let max = tab_code(tab_of(code)).1;
                    let mut vals: Vec<u64> = (0..=max + 64).collect();
                    for i in 11..64 {
                        vals.extend_from_slice(&[(1u64 << i) - 2, (1 << i) - 1, 1 << i]);
                    }
                    vals.push(u64::MAX - 1);
                    for batch in vals.chunks(16) {
                        k += 1;
                        let backend = [WBackend::VecBorrowed, WBackend::Recording, WBackend::Adapter, WBackend::Slice][k % 4];
                        part.check(&Case::Write { wcfg: WCfg::new(e, w, backend), pre_bits: (k % (w.bits() + 2)) as u16, code, values: batch.to_vec() }, &f);
                    }
                }
                part.finish()
            }));
        }
    }
    jobs.push(Box::new(move |ctx: &Ctx| {
        let mut part = Part::new(ctx, "len_tables", "len_*_param::<true> == <false> == reference for 0..=LEN.len()+64", true);
        let f = |c: &Case| check_case(c, env);
        for (code, n) in [(Code::Gamma, gamma_tables::LEN.len()), (Code::Delta, delta_tables::LEN.len()), (Code::Zeta(3), zeta_tables::LEN.len())] {
            let mut s = 0u64;
            while s < n as u64 + 64 {
                part.check(&Case::Len { code, from: s, n: 32 }, &f);
                s += 32;
            }
            // values far above the table whose low bits look like table indices (a truncated index would hit the table)
            for sh in [16u32, 31, 32, 33, 40, 48, 56, 62, 63] {
                for low in [0u64, 1, 7, 100, n as u64 - 1] {
                    let from = (1u64 << sh) | low;
                    part.check(&Case::Len { code, from: from.min(u64::MAX - 40), n: 4 }, &f);
                }
            }
        }
        part.finish()
    }));
    run_jobs(ctx, jobs)
}

fn replay(v: &serde_json::Value, env: &Env) -> CheckResult {
    let c: Case = serde_json::from_value(v.clone()).map_err(|e| Failure::new("replay/parse", e.to_string()))?;
    run_guarded(&c, &|c: &Case| check_case(c, env))
}
