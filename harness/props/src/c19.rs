//! C19 — build options change no result; argument checking fires only on dirty arguments.

use crate::calls::*;
use crate::ops::*;
use crate::{Env, PropDef};
use serde::{Deserialize, Serialize};
use std::sync::atomic::Ordering;
use vcore::engine::*;
use vcore::{fail, En};

#[derive(Clone, PartialEq, Eq, Hash, Debug, Serialize, Deserialize)]
pub enum Case {
    /// write_bits(v, n) after `fill` bits: must panic iff built with `checks` and v has a bit at or above n
    Dirty { cfg: WCfg, fill: u8, v: u64, n: u8 },
}

pub const DEF: PropDef = PropDef {
    id: "C19",
    rule: "The same binary source is built in eight configurations: features {default, checks, no_copy_impls, checks+no_copy_impls} x profiles \
{optimised without debug assertions, debug assertions and overflow checks on}. In every build: (a) dirty-argument sweep, enumerated \
completely: write_bits(v, n) for every n in 0..=64, v = a clean value OR one stray bit at every position >= n (plus clean values incl. n = 0 \
and n = 64, all-ones above n), at several buffer fill levels, both endiannesses, all five writer words: with `checks` the call must panic \
exactly when a bit at or above n is set, without `checks` it must never panic and must write the n low bits; (b) the quick explorations of \
C01, C02, C03, C04, C05, C06, C07, C08, C10, C11, C12, C13, C14 (counting and tracing wrappers), C15, C18 and C20 are replayed with arguments of fixed-width writes cleaned, each case compared with the bit model \
/ reference codecs (so every observable result is identical across the eight builds, and no in-domain library-issued write, bulk copy or byte \
write trips the check); the driver additionally compares, across builds, the number of cases and a digest of the case set of every \
sub-exploration. Non-trivial: as in the replayed properties, and every dirty-sweep case; distinct = distinct case hashes (maximum over builds).",
    assumptions: &[
        "the model-based verdict of each replayed case in each build implies equality of results across builds",
        "only the build options named by the property are varied; other targets (32-bit, ARM) cannot be built here",
    ],
    run,
    replay,
    from_bytes: None,
};

pub fn check_case(c: &Case, env: &Env) -> CheckResult {
    let mut o = Outcome::new();
    o.nt("dirty_sweep");
    match c {
        Case::Dirty { cfg, fill, v, n } => {
            let dirty = (*n as usize) < 64 && (*v >> *n) != 0;
            let mut pre: Vec<WOp> = vec![];
            let mut left = *fill as usize;
            while left > 0 {
                let k = left.min(64);
                pre.push(WOp::Bits { v: 0x6996_9669_9669_6996u64 & mask64(k), n: k as u8 });
                left -= k;
            }
            // run the prefix and the write separately so that a panic is attributed to the write
            let mut panicked: Option<String> = None;
            let mut wrote_ok = false;
            let mut ops = pre.clone();
            ops.push(WOp::Bits { v: *v, n: *n });
            ops.push(WOp::Bits { v: 0x15, n: 5 });
            // never sanitise this very write
            let was = SANITIZE.swap(false, Ordering::Relaxed);
            let r = run_writer(*cfg, WEnd::IntoInner, &ops);
            SANITIZE.store(was, Ordering::Relaxed);
            match r {
                Ok(_) => wrote_ok = true,
                Err(f) => {
                    if f.sig.starts_with("panic_w") {
                        panicked = Some(f.msg);
                    } else {
                        return Err(f);
                    }
                }
            }
            if env.checks {
                if dirty {
                    match &panicked {
                        Some(m) if m.contains("does not fit") => o.label("checks_fired_on_dirty"),
                        Some(m) => fail!("checks/other_panic", "dirty write_bits({:#x}, {}) panicked with an unrelated message: {}", v, n, m),
                        None => fail!("checks/missed", "built with `checks` but write_bits({:#x}, {}) with a bit at or above {} did not panic", v, n, n),
                    }
                } else if let Some(m) = panicked {
                    fail!("checks/false_positive", "built with `checks`: clean write_bits({:#x}, {}) panicked: {}", v, n, m);
                }
            } else if let Some(m) = panicked {
                fail!("nochecks/panic", "built without `checks` but write_bits({:#x}, {}) panicked: {}", v, n, m);
            }
            let _ = wrote_ok;
        }
    }
    Ok(o)
}

type SubRun = (&'static str, fn(&Ctx, &Env) -> Stats);

fn subs() -> Vec<SubRun> {
    vec![
        ("C01", crate::c01::DEF.run),
        ("C02", crate::c02::DEF.run),
        ("C03", crate::c03::DEF.run),
        ("C04", crate::c03::DEF04.run),
        ("C05", crate::c05::DEF.run),
        ("C06", crate::c06::DEF.run),
        ("C07", crate::c07::DEF.run),
        ("C08", crate::c08::DEF.run),
        ("C12", crate::c12::DEF.run),
        ("C10", crate::c10::DEF.run),
        ("C11", crate::c11::DEF.run),
        ("C13", crate::c13::DEF.run),
        ("C14", crate::c14::DEF.run),
        ("C15", crate::c15::DEF.run),
        ("C18", crate::c18::DEF.run),
        ("C20", crate::c20::DEF.run),
    ]
}

fn run(ctx: &Ctx, env: &Env) -> Stats {
    let mut jobs: Vec<Job> = vec![];
    for e in En::ALL {
        for w in Wd::WRITER {
            jobs.push(Box::new(move |ctx: &Ctx| {
                let mut part = Part::new(ctx, format!("dirty/{}/w{}", e.name(), w.bits()), "every n x every stray bit position x fill levels", true);
                let f = |c: &Case| check_case(c, env);
                let cfg = WCfg::new(e, w, WBackend::VecBorrowed);
                let wb = w.bits();
                for fill in [0usize, 1, wb / 2, wb - 1, wb - 3] {
                    for n in 0..=64u8 {
                        let clean = 0xA5A5_A5A5_5A5A_5A5Au64 & mask64(n as usize);
                        part.check(&Case::Dirty { cfg, fill: fill as u8, v: clean, n }, &f);
                        part.check(&Case::Dirty { cfg, fill: fill as u8, v: mask64(n as usize), n }, &f);
                        part.check(&Case::Dirty { cfg, fill: fill as u8, v: 0, n }, &f);
                        for b in (n as usize)..64 {
                            part.check(&Case::Dirty { cfg, fill: fill as u8, v: clean | (1u64 << b), n }, &f);
                        }
                        if n < 64 {
                            part.check(&Case::Dirty { cfg, fill: fill as u8, v: clean | !mask64(n as usize), n }, &f);
                        }
                    }
                }
                part.finish()
            }));
        }
    }
    let mut st = run_jobs(ctx, jobs);
    // (b) the other explorations, with clean arguments, in this build
    SANITIZE.store(true, Ordering::Relaxed);
    let sub_ctx = Ctx { tier: Tier::Quick, ..ctx.clone() };
    for (id, f) in subs() {
        let mut s = f(&sub_ctx, env);
        // prefix part names and wrap failing cases so that a replay knows which check to run
        let parts = std::mem::take(&mut s.parts);
        for (k, v) in parts {
            s.parts.insert(format!("{}/{}", id, k), v);
        }
        for fl in s.failures.iter_mut() {
            fl.part = format!("{}/{}", id, fl.part);
            fl.sig = format!("{}/{}", id, fl.sig);
            fl.case = serde_json::json!({"sub": id, "case": fl.case});
        }
        let sigs = std::mem::take(&mut s.failure_sigs);
        for (k, v) in sigs {
            s.failure_sigs.insert(format!("{}/{}", id, k), v);
        }
        // digest of the case set: number of cases and xor-sum of the distinct non-trivial hashes
        let mut x = 0u64;
        for h in &s.distinct {
            x ^= *h;
        }
        s.notes.push(format!("digest {} evaluations={} nontrivial={} distinct={} xor={:016x}", id, s.evaluations, s.nontrivial_evals, s.distinct.len(), x));
        st.merge(s);
    }
    SANITIZE.store(false, Ordering::Relaxed);
    st
}

fn replay(v: &serde_json::Value, env: &Env) -> CheckResult {
    if let Some(sub) = v.get("sub").and_then(|s| s.as_str()) {
        let inner = v.get("case").cloned().unwrap_or(serde_json::Value::Null);
        let def = crate::all_props().into_iter().find(|p| p.id == sub).ok_or_else(|| Failure::new("replay/sub", format!("unknown sub-check {}", sub)))?;
        SANITIZE.store(true, Ordering::Relaxed);
        let r = (def.replay)(&inner, env);
        SANITIZE.store(false, Ordering::Relaxed);
        return r.map_err(|mut f| {
            f.sig = format!("{}/{}", sub, f.sig);
            f
        });
    }
    let c: Case = serde_json::from_value(v.clone()).map_err(|e| Failure::new("replay/parse", e.to_string()))?;
    run_guarded(&c, &|c: &Case| check_case(c, env))
}
