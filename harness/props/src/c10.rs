//! C10 — every dispatch mechanism performs exactly the code it names.

use crate::calls::*;
use crate::dispatch::*;
use crate::ops::*;
use crate::{Env, PropDef};
use serde::{Deserialize, Serialize};
use vcore::engine::*;
use vcore::grid;
use vcore::refcodes;
use vcore::{fail, BitVec, Code, En};

#[derive(Clone, PartialEq, Eq, Hash, Debug, Serialize, Deserialize)]
pub struct Case {
    pub e: En,
    pub how: Disp,
    /// the code the identifier / variant *names*
    pub code: Code,
    /// compile-time identifier (for the ConstCode mechanisms), with the constant's name
    pub id: Option<(String, usize)>,
    pub pre: u8,
    pub v: u64,
}

pub const DEF: PropDef = PropDef {
    id: "C10",
    rule: "Cases are (endianness, dispatch mechanism, code named, identifier, preceding bits, value). The identifier space is enumerated \
completely: all 62 named constants of code_consts (51 distinct identifiers) through ConstCode (inherent, dynamic and static trait paths); every \
Codes variant with parameters 0..=12, 16, 63 (Golomb also large moduli) through Codes (inherent/dynamic/static), FuncCodeReader/Writer/Len, \
FactoryFuncCodeReader::new + get() over a harness factory, and CodesStatsWrapper (dynamic and static paths); reads are done over a reader with 32-bit words and, for codes whose own parameterless method consults no decoding table, also over a reader with 8-bit words; x a value grid x offsets {0,3,13} x \
both endiannesses. The mapping identifier -> (family, parameter) is written by hand from the constant names. Oracle: bytes written through the \
dispatcher == bytes written by the direct trait method == reference encoding; returned length == reference length; value and bit position read \
through the dispatcher from the reference stream == value written / end of codeword, and the following bits are intact; length object == \
reference length; dispatcher->dispatcher round trip. FuncCode*/Factory constructors must succeed on the documented set (parameterless codes and \
parameters up to 10) and, wherever they succeed, behave as the code asked for. Non-trivial: the value distinguishes the named code from its \
neighbours (parameter +-1 and sibling families give a different codeword); distinct = distinct case hashes.",
    assumptions: &["identifier table written from the constant names (dispatch::id_table)", "reference codecs; D5/D6 value and parameter domains"],
    run,
    replay,
    from_bytes: None,
};

fn neighbours(c: Code) -> Vec<Code> {
    let mut v = vec![];
    let p = c.param();
    let mk = |fam: &str, k: u64| -> Option<Code> {
        Some(match fam {
            "zeta" if k >= 1 && k <= 63 => Code::Zeta(k as u32),
            "pi" if k <= 63 => Code::Pi(k as u32),
            "rice" if k <= 63 => Code::Rice(k as u32),
            "expgolomb" if k <= 63 => Code::ExpGolomb(k as u32),
            "golomb" if k >= 1 => Code::Golomb(k),
            _ => return None,
        })
    };
    for fam in ["zeta", "pi", "rice", "expgolomb", "golomb"] {
        for k in [p.wrapping_sub(1), p, p.wrapping_add(1)] {
            if let Some(n) = mk(fam, k) {
                if n != c {
                    v.push(n);
                }
            }
        }
    }
    for n in [Code::Unary, Code::Gamma, Code::Delta, Code::Omega, Code::VByteBe, Code::VByteLe] {
        if n != c {
            v.push(n);
        }
    }
    v
}

fn distinguishes(c: Code, v: u64, e: En) -> bool {
    let me = refcodes::encoded(c, v, e);
    let sem_equal = |a: Code, b: Code| -> bool {
        // documented identities: these pairs have identical codewords
        let norm = |x: Code| match x {
            Code::Zeta(1) | Code::Pi(0) | Code::ExpGolomb(0) => Code::Gamma,
            Code::Rice(0) | Code::Golomb(1) => Code::Unary,
            Code::Golomb(b) if b.is_power_of_two() => Code::Rice(b.trailing_zeros()),
            y => y,
        };
        norm(a) == norm(b)
    };
    neighbours(c).into_iter().filter(|n| !sem_equal(*n, c)).all(|n| grid::fold(n, v) != v || refcodes::encoded(n, v, e) != me)
}

fn documented(code: Code) -> bool {
    match code {
        Code::Unary | Code::Gamma | Code::Delta | Code::Omega | Code::VByteBe | Code::VByteLe => true,
        Code::Zeta(k) => (1..=10).contains(&k),
        Code::Pi(k) | Code::Rice(k) | Code::ExpGolomb(k) => k <= 10,
        Code::Golomb(b) => (1..=10).contains(&b),
        Code::MinBin(_) => false,
    }
}

pub fn check_case(c: &Case, _env: &Env) -> CheckResult {
    let e = c.e;
    let pre = c.pre as usize;
    // the identifier is resolved by the constant's *name* on the tree under test (the number stored in the
    // case is informational: a saved case must stay meaningful if the numbering changes)
    let id = match c.id.as_ref() {
        Some((name, _)) => match id_table().into_iter().find(|t| format!("{}{}", t.0, t.2.param()) == *name) {
            Some(t) => Some(t.1),
            None => fail!("harness/c10_unknown_constant", "unknown constant name {}", name),
        },
        None => None,
    };
    let fam = c.code.family();
    let how = format!("{:?}", c.how);
    let mut o = Outcome::new();
    // reference stream: pre bits, codeword, 9-bit sentinel
    let mut m = BitVec::new();
    m.push_field((0x5555_5555_5555_5555u64 & mask64(pre)) as u128, pre, e);
    refcodes::encode(c.code, c.v, e, &mut m);
    let l = m.len() - pre;
    m.push_field(0x1A5, 9, e);
    m.pad_to(64);
    let ref_bytes = m.to_bytes(e);
    // direct trait method on the same writer type
    let direct = run_writer(
        WCfg::new(e, Wd::U64, WBackend::VecOwned),
        WEnd::IntoInner,
        &[WOp::Bits { v: 0x5555_5555_5555_5555u64 & mask64(pre), n: pre as u8 }, WOp::Code { call: Call::plain(c.code), v: c.v }, WOp::Bits { v: 0x1A5, n: 9 }],
    )
    .map_err(|mut f| {
        f.sig = format!("direct/{}", f.sig);
        f
    })?;
    let unsupported_ok = |err: &str| -> Result<bool, Failure> {
        if err.starts_with("unsupported") {
            if documented(c.code) && !(c.how == Disp::Factory && err.contains("read-only")) && !err.contains("no length object") {
                return Err(Failure::new(format!("{}/{}/unsupported_documented", how, fam), format!("{:?} refuses the documented code {:?}: {}", c.how, c.code, err)));
            }
            return Ok(true);
        }
        Ok(false)
    };
    // write
    let mut wrote: Option<Vec<u8>> = None;
    match d_write(e, c.how, c.code, id, pre, c.v) {
        Ok((bytes, ret)) => {
            if ret != l {
                fail!(format!("{}/{}/write/ret", how, fam), "write of {} through {:?} as {:?} (id {:?}) returned {}, reference length {}", c.v, c.how, c.code, c.id, ret, l);
            }
            if bytes != ref_bytes || bytes != direct.bytes {
                fail!(
                    format!("{}/{}/write/bytes", how, fam),
                    "write of {} through {:?} as {:?} (id {:?}, {}): dispatcher wrote {}, direct method {}, reference {}",
                    c.v, c.how, c.code, c.id, e.name(), hex(&bytes), hex(&direct.bytes), hex(&ref_bytes)
                );
            }
            wrote = Some(bytes);
        }
        Err(er) => {
            if !unsupported_ok(&er)? {
                fail!(format!("{}/{}/write/err", how, fam), "write through {:?} as {:?}: {}", c.how, c.code, er);
            }
            o.label("write_unsupported_by_mechanism");
        }
    }
    // read (from the reference stream, and from what the dispatcher itself wrote)
    for (src, bytes) in [("reference", Some(&ref_bytes)), ("own", wrote.as_ref())] {
        let Some(bytes) = bytes else { continue };
        match d_read(e, c.how, c.code, id, pre, bytes) {
            Ok(obs) => {
                if obs.value != c.v || obs.pos != (pre + l) as u64 || obs.next9 != 0x1A5 {
                    fail!(
                        format!("{}/{}/read", how, fam),
                        "read through {:?} as {:?} (id {:?}, {}, {} stream {}): value {} pos {} next {:#x}; expected value {} pos {} next 0x1a5",
                        c.how, c.code, c.id, e.name(), src, hex(bytes), obs.value, obs.pos, obs.next9, c.v, pre + l
                    );
                }
            }
            Err(er) => {
                if !unsupported_ok(&er)? {
                    fail!(format!("{}/{}/read/err", how, fam), "read through {:?} as {:?}: {}", c.how, c.code, er);
                }
                o.label("read_unsupported_by_mechanism");
            }
        }
        // the same read over a reader with 8-bit words, for codes whose own parameterless method consults no
        // decoding table (an 8-bit reader is outside the domain of every table, D7: a dispatcher that silently
        // switches to a table-driven variant is not "the same decoding")
        if src == "reference" && !matches!(c.code, Code::Delta | Code::Zeta(3)) {
            match d_read8(e, c.how, c.code, id, pre, bytes) {
                Ok(obs) => {
                    if obs.value != c.v || obs.pos != (pre + l) as u64 || obs.next9 != 0x1A5 {
                        fail!(
                            format!("{}/{}/read8", how, fam),
                            "read over 8-bit words through {:?} as {:?} (id {:?}, {}, stream {}): value {} pos {} next {:#x}; expected value {} pos {} next 0x1a5",
                            c.how, c.code, c.id, e.name(), hex(bytes), obs.value, obs.pos, obs.next9, c.v, pre + l
                        );
                    }
                    o.label("read_over_8_bit_words");
                }
                Err(er) => {
                    if !unsupported_ok(&er)? {
                        fail!(format!("{}/{}/read8/err", how, fam), "read over 8-bit words through {:?} as {:?}: {}", c.how, c.code, er);
                    }
                }
            }
        }
    }
    // len
    match d_len(c.how, c.code, id, c.v) {
        Ok(got) => {
            if got != l {
                fail!(format!("{}/{}/len", how, fam), "length through {:?} as {:?} (id {:?}) of {} = {}, reference {}", c.how, c.code, c.id, c.v, got, l);
            }
        }
        Err(er) => {
            if !unsupported_ok(&er)? {
                fail!(format!("{}/{}/len/err", how, fam), "len through {:?} as {:?}: {}", c.how, c.code, er);
            }
        }
    }
    if distinguishes(c.code, c.v, e) {
        o.nt("value_distinguishes_named_code");
    }
    Ok(o)
}

fn value_grid(code: Code) -> Vec<u64> {
    let mut v: Vec<u64> = (0..=24).collect();
    v.extend_from_slice(&[31, 32, 33, 63, 64, 100, 127, 128, 255, 256, 1000, 4095, 4096, 65535, 65536, 1 << 20, (1 << 31) + 7, (1 << 33) + 1, u64::MAX - 1]);
    let mut v: Vec<u64> = v.into_iter().map(|x| grid::fold(code, x)).collect();
    v.sort_unstable();
    v.dedup();
    v
}

fn run(ctx: &Ctx, env: &Env) -> Stats {
    let mut jobs: Vec<Job> = vec![];
    // all named constants through ConstCode
    for e in En::ALL {
        jobs.push(Box::new(move |ctx: &Ctx| {
            let mut part = Part::new(ctx, format!("const/{}", e.name()), "all 62 named constants x 3 trait paths x value grid x offsets", true);
            let f = |c: &Case| check_case(c, env);
            let mut weak = vec![];
            for (name, id, code) in id_table() {
                let vals = value_grid(code);
                let nd = vals.iter().filter(|&&v| distinguishes(code, v, e)).count();
                if nd < 8 {
                    weak.push(format!("{}{}:{}", name, code.param(), nd));
                }
                for how in [Disp::ConstInherent, Disp::ConstDyn, Disp::ConstStatic] {
                    for pre in [0u8, 3, 13] {
                        for &v in &vals {
                            part.check(&Case { e, how, code, id: Some((format!("{}{}", name, code.param()), id)), pre, v }, &f);
                        }
                    }
                }
            }
            if !weak.is_empty() {
                part.stats.notes.push(format!("identifiers with fewer than 8 distinguishing values: {:?}", weak));
            }
            part.finish()
        }));
    }
    // every enumeration variant x parameter through the run-time mechanisms
    let mut codes: Vec<Code> = vec![Code::Unary, Code::Gamma, Code::Delta, Code::Omega, Code::VByteBe, Code::VByteLe];
    for k in (0..=12u32).chain([16, 63]) {
        if k >= 1 {
            codes.push(Code::Zeta(k));
            codes.push(Code::Golomb(k as u64));
        }
        codes.push(Code::Pi(k));
        codes.push(Code::Rice(k));
        codes.push(Code::ExpGolomb(k));
    }
    for b in [100u64, 1 << 20, (1 << 32) + 1, (1 << 63) + 5, u64::MAX] {
        codes.push(Code::Golomb(b));
    }
    for e in En::ALL {
        for how in [Disp::CodesInherent, Disp::CodesDyn, Disp::CodesStatic, Disp::Func, Disp::Factory, Disp::StatsDyn, Disp::StatsStatic] {
            let codes = codes.clone();
            jobs.push(Box::new(move |ctx: &Ctx| {
                let mut part = Part::new(ctx, format!("enum/{}/{:?}", e.name(), how), "every variant x parameter 0..=12,16,63 (+large Golomb moduli) x value grid x offsets", true);
                let f = |c: &Case| check_case(c, env);
                for &code in &codes {
                    for pre in [0u8, 3, 13] {
                        for v in value_grid(code) {
                            part.check(&Case { e, how, code, id: None, pre, v }, &f);
                        }
                    }
                }
                part.finish()
            }));
        }
    }
    run_jobs(ctx, jobs)
}

fn replay(v: &serde_json::Value, env: &Env) -> CheckResult {
    let c: Case = serde_json::from_value(v.clone()).map_err(|e| Failure::new("replay/parse", e.to_string()))?;
    run_guarded(&c, &|c: &Case| check_case(c, env))
}
