//! C13 — in-memory word streams behave as an array with a cursor.

use crate::calls::*;
use crate::{Env, PropDef};
use dsi_bitstream::prelude::*;
use serde::{Deserialize, Serialize};
use vcore::engine::*;
use vcore::fail;

#[derive(Clone, Copy, PartialEq, Eq, Hash, Debug, Serialize, Deserialize)]
pub enum Kind {
    ReaderInf,
    ReaderStrict,
    WriterSlice,
    WriterVec,
}

#[derive(Clone, Copy, PartialEq, Eq, Hash, Debug, Serialize, Deserialize)]
pub enum Op {
    Read,
    Write(u8),
    Pos,
    /// set_word_pos
    Seek(u64),
    Len,
}

#[derive(Clone, PartialEq, Eq, Hash, Debug, Serialize, Deserialize)]
pub struct Case {
    pub kind: Kind,
    pub w: Wd,
    pub owned: bool,
    pub init: Vec<u8>,
    pub ops: Vec<Op>,
}

pub const DEF: PropDef = PropDef {
    id: "C13",
    rule: "Cases are (stream kind {zero-extended reader, strict reader, fixed-slice writer, growable-vector writer}, word type u8..u128, owned or \
borrowed storage, initial array, call sequence over {read_word, write_word(w), word_pos, set_word_pos(p), len/is_empty}). Exhaustive: every \
sequence of length <= 5 (6 in thorough) over a 9-letter alphabet (read, two writes, pos, len, seeks to 0, 1, len, len+1) on arrays of length \
0..=3, for every kind, word type and storage; plus a seek alphabet with 2^40 and 2^62 (D10). Random: proptest sequences up to length 200. \
Oracle: a Vec of words plus a cursor: exact return value of every call including which calls fail, cursor unchanged by a failed read / write / \
seek, zero fill when the vector grows, reads beyond the end yield zero on the zero-extended reader and Err on the others, final contents via \
into_inner(). Non-trivial: the sequence contains an operation at or beyond the end (error / zero extension / growth) or a rejected seek \
followed by another operation; distinct = distinct case hashes.",
    assumptions: &["the array+cursor model below (about 40 lines)", "D10: seek targets <= 2^62"],
    run,
    replay,
    from_bytes: None,
};

/// The reference: an array and a cursor.
struct Model {
    kind: Kind,
    data: Vec<u128>,
    cur: u64,
}

#[derive(Debug, PartialEq)]
enum Ret {
    Word(u128),
    Unit,
    Err,
    Num(u64),
    Unsupported,
}

impl Model {
    fn apply(&mut self, op: Op, mask: u128) -> Ret {
        let len = self.data.len() as u64;
        match op {
            Op::Read => {
                if self.cur < len {
                    let w = self.data[self.cur as usize];
                    self.cur += 1;
                    Ret::Word(w)
                } else if self.kind == Kind::ReaderInf {
                    self.cur += 1;
                    Ret::Word(0)
                } else {
                    Ret::Err
                }
            }
            Op::Write(b) => {
                let w = (b as u128).wrapping_mul(0x0101_0101_0101_0101_0101_0101_0101_0101) & mask;
                match self.kind {
                    Kind::ReaderInf | Kind::ReaderStrict => Ret::Unsupported,
                    Kind::WriterSlice => {
                        if self.cur < len {
                            self.data[self.cur as usize] = w;
                            self.cur += 1;
                            Ret::Unit
                        } else {
                            Ret::Err
                        }
                    }
                    Kind::WriterVec => {
                        while (self.data.len() as u64) <= self.cur {
                            self.data.push(0);
                        }
                        self.data[self.cur as usize] = w;
                        self.cur += 1;
                        Ret::Unit
                    }
                }
            }
            Op::Pos => Ret::Num(self.cur),
            Op::Seek(p) => {
                if self.kind == Kind::ReaderInf || p <= len {
                    self.cur = p;
                    Ret::Unit
                } else {
                    Ret::Err
                }
            }
            Op::Len => match self.kind {
                Kind::WriterSlice | Kind::WriterVec => Ret::Num(len),
                _ => Ret::Unsupported,
            },
        }
    }
}

trait Wv: dsi_bitstream::traits::Word + Into<u128> + 'static {
    fn from128(x: u128) -> Self;
    const MASK: u128;
}
macro_rules! impl_wv {
    ($($t:ty),*) => {$( impl Wv for $t { fn from128(x: u128) -> Self { x as $t } const MASK: u128 = <$t>::MAX as u128; } )*};
}
impl_wv!(u8, u16, u32, u64, u128);

fn run_case<W: Wv>(c: &Case) -> CheckResult {
    let init: Vec<W> = c.init.iter().map(|&b| W::from128((b as u128).wrapping_mul(0x0123_4567_89AB_CDEF_1122_3344_5566_7788) & W::MASK)).collect();
    let mut model = Model { kind: c.kind, data: init.iter().map(|&w| w.into()).collect(), cur: 0 };
    let mut o = Outcome::new();
    let mut rejected_seek = false;
    macro_rules! drive {
        ($s:expr, $read:expr, $write:expr, $len:expr, $finish:expr) => {{
            let mut s = $s;
            for (i, &op) in c.ops.iter().enumerate() {
                let before = model.cur;
                let exp = model.apply(op, W::MASK);
                if rejected_seek {
                    o.nt("operation_after_rejected_seek");
                }
                let got: Ret = match op {
                    Op::Read => $read(&mut s),
                    Op::Write(b) => $write(&mut s, W::from128((b as u128).wrapping_mul(0x0101_0101_0101_0101_0101_0101_0101_0101) & W::MASK)),
                    Op::Pos => match s.word_pos() {
                        Ok(p) => Ret::Num(p),
                        Err(_) => Ret::Err,
                    },
                    Op::Seek(p) => match s.set_word_pos(p) {
                        Ok(()) => Ret::Unit,
                        Err(_) => Ret::Err,
                    },
                    Op::Len => $len(&s),
                };
                if exp == Ret::Unsupported {
                    continue;
                }
                if got != exp {
                    fail!(
                        format!("{:?}/{}/w{}", c.kind, opname(op), c.w.bits()),
                        "op #{} {:?} with cursor {} on {} words returned {:?}, the array+cursor model gives {:?}",
                        i, op, before, model.data.len(), got, exp
                    );
                }
                if exp == Ret::Err {
                    o.nt("error_at_or_beyond_end");
                    if matches!(op, Op::Seek(_)) {
                        rejected_seek = true;
                    }
                }
                if matches!(op, Op::Read) && before >= c.init.len() as u64 && c.kind == Kind::ReaderInf {
                    o.nt("zero_extension");
                }
                if matches!(op, Op::Write(_)) && c.kind == Kind::WriterVec && before >= c.init.len() as u64 {
                    o.nt("growth");
                }
                // the cursor after every call, observed through word_pos
                match s.word_pos() {
                    Ok(p) if p == model.cur => {}
                    o2 => fail!(format!("{:?}/cursor_after_{}/w{}", c.kind, opname(op), c.w.bits()), "after op #{} {:?}: word_pos() = {:?}, model cursor {}", i, op, o2, model.cur),
                }
            }
            $finish(s)
        }};
    }
    let rd = |r: Result<W, _>| -> Ret {
        match r {
            Ok(w) => Ret::Word(w.into()),
            Err::<W, ()>(_) => Ret::Err,
        }
    };
    let final_data: Option<Vec<W>> = match (c.kind, c.owned) {
        (Kind::ReaderInf, true) => drive!(MemWordReader::<W, Vec<W>>::new(init.clone()), |s: &mut MemWordReader<W, Vec<W>>| rd(s.read_word().map_err(|_| ())), |_s: &mut _, _w: W| Ret::Unsupported, |_s: &_| Ret::Unsupported, |s: MemWordReader<W, Vec<W>>| Some(s.into_inner())),
        (Kind::ReaderInf, false) => drive!(MemWordReader::<W, &[W]>::new(&init[..]), |s: &mut MemWordReader<W, &[W]>| rd(s.read_word().map_err(|_| ())), |_s: &mut _, _w: W| Ret::Unsupported, |_s: &_| Ret::Unsupported, |s: MemWordReader<W, &[W]>| Some(s.into_inner().to_vec())),
        (Kind::ReaderStrict, true) => drive!(MemWordReader::<W, Vec<W>, false>::new_strict(init.clone()), |s: &mut MemWordReader<W, Vec<W>, false>| rd(s.read_word().map_err(|_| ())), |_s: &mut _, _w: W| Ret::Unsupported, |_s: &_| Ret::Unsupported, |_s| None),
        (Kind::ReaderStrict, false) => drive!(MemWordReader::<W, &[W], false>::new_strict(&init[..]), |s: &mut MemWordReader<W, &[W], false>| rd(s.read_word().map_err(|_| ())), |_s: &mut _, _w: W| Ret::Unsupported, |_s: &_| Ret::Unsupported, |_s| None),
        (Kind::WriterSlice, true) => drive!(
            MemWordWriterSlice::<W, Vec<W>>::new(init.clone()),
            |s: &mut MemWordWriterSlice<W, Vec<W>>| rd(s.read_word().map_err(|_| ())),
            |s: &mut MemWordWriterSlice<W, Vec<W>>, w: W| if s.write_word(w).is_ok() { Ret::Unit } else { Ret::Err },
            |s: &MemWordWriterSlice<W, Vec<W>>| { if s.is_empty() != (s.len() == 0) { Ret::Err } else { Ret::Num(s.len() as u64) } },
            |s: MemWordWriterSlice<W, Vec<W>>| Some(s.into_inner())
        ),
        (Kind::WriterSlice, false) => {
            let mut st = init.clone();
            let r = drive!(
                MemWordWriterSlice::<W, &mut [W]>::new(&mut st[..]),
                |s: &mut MemWordWriterSlice<W, &mut [W]>| rd(s.read_word().map_err(|_| ())),
                |s: &mut MemWordWriterSlice<W, &mut [W]>, w: W| if s.write_word(w).is_ok() { Ret::Unit } else { Ret::Err },
                |s: &MemWordWriterSlice<W, &mut [W]>| { if s.is_empty() != (s.len() == 0) { Ret::Err } else { Ret::Num(s.len() as u64) } },
                |s: MemWordWriterSlice<W, &mut [W]>| Some(s.into_inner().to_vec())
            );
            r
        }
        (Kind::WriterVec, true) => drive!(
            MemWordWriterVec::<W, Vec<W>>::new(init.clone()),
            |s: &mut MemWordWriterVec<W, Vec<W>>| rd(s.read_word().map_err(|_| ())),
            |s: &mut MemWordWriterVec<W, Vec<W>>, w: W| if s.write_word(w).is_ok() { Ret::Unit } else { Ret::Err },
            |s: &MemWordWriterVec<W, Vec<W>>| { if s.is_empty() != (s.len() == 0) { Ret::Err } else { Ret::Num(s.len() as u64) } },
            |s: MemWordWriterVec<W, Vec<W>>| Some(s.into_inner())
        ),
        (Kind::WriterVec, false) => {
            let mut st = init.clone();
            let r = drive!(
                MemWordWriterVec::<W, &mut Vec<W>>::new(&mut st),
                |s: &mut MemWordWriterVec<W, &mut Vec<W>>| rd(s.read_word().map_err(|_| ())),
                |s: &mut MemWordWriterVec<W, &mut Vec<W>>, w: W| if s.write_word(w).is_ok() { Ret::Unit } else { Ret::Err },
                |s: &MemWordWriterVec<W, &mut Vec<W>>| { if s.is_empty() != (s.len() == 0) { Ret::Err } else { Ret::Num(s.len() as u64) } },
                |s: MemWordWriterVec<W, &mut Vec<W>>| Some(s.into_inner().clone())
            );
            r
        }
    };
    if let Some(fd) = final_data {
        let got: Vec<u128> = fd.iter().map(|&w| w.into()).collect();
        if got != model.data {
            fail!(format!("{:?}/final_contents/w{}", c.kind, c.w.bits()), "final contents {:?} differ from the model {:?}", got, model.data);
        }
    }
    Ok(o)
}

fn opname(op: Op) -> &'static str {
    match op {
        Op::Read => "read_word",
        Op::Write(_) => "write_word",
        Op::Pos => "word_pos",
        Op::Seek(_) => "set_word_pos",
        Op::Len => "len",
    }
}

pub fn check_case(c: &Case, _env: &Env) -> CheckResult {
    match c.w {
        Wd::U8 => run_case::<u8>(c),
        Wd::U16 => run_case::<u16>(c),
        Wd::U32 => run_case::<u32>(c),
        Wd::U64 => run_case::<u64>(c),
        Wd::U128 => run_case::<u128>(c),
    }
}

const KINDS: [Kind; 4] = [Kind::ReaderInf, Kind::ReaderStrict, Kind::WriterSlice, Kind::WriterVec];

fn run(ctx: &Ctx, env: &Env) -> Stats {
    let mut jobs: Vec<Job> = vec![];
    let depth = ctx.t(5usize, 6);
    for kind in KINDS {
        for w in Wd::WRITER {
            jobs.push(Box::new(move |ctx: &Ctx| {
                let mut part = Part::new(ctx, format!("exhaustive/{:?}/w{}", kind, w.bits()), "every call sequence up to the depth over a 9-letter alphabet, arrays of length 0..=3, owned and borrowed", true);
                let f = |c: &Case| check_case(c, env);
                for len in 0..=3usize {
                    let init: Vec<u8> = (1..=len as u8).collect();
                    let alpha: Vec<Op> = vec![Op::Read, Op::Write(0xA1), Op::Write(0), Op::Pos, Op::Len, Op::Seek(0), Op::Seek(1), Op::Seek(len as u64), Op::Seek(len as u64 + 1)];
                    let k = alpha.len();
                    for d in 0..=depth {
                        for code in 0..k.pow(d as u32) {
                            let mut x = code;
                            let ops: Vec<Op> = (0..d)
                                .map(|_| {
                                    let a = alpha[x % k];
                                    x /= k;
                                    a
                                })
                                .collect();
                            // owned / borrowed alternate exhaustively at the deepest level only in thorough
                            for owned in [true, false] {
                                if ctx.quick() && d == depth && owned != (code % 2 == 0) {
                                    continue;
                                }
                                part.check(&Case { kind, w, owned, init: init.clone(), ops: ops.clone() }, &f);
                            }
                        }
                    }
                    // extreme seek targets (around 2^63 and at the top of the u64 range): accepted exactly by the
                    // zero-extended reader, rejected without moving the cursor by the others; no read at the extreme
                    // position itself (the cursor increment would overflow there, D10)
                    for x in [(1u64 << 63) - 1, 1 << 63, (1 << 63) + 1, u64::MAX - 1, u64::MAX] {
                        for owned in [true, false] {
                            part.check(&Case { kind, w, owned, init: init.clone(), ops: vec![Op::Read, Op::Seek(x), Op::Pos, Op::Len, Op::Seek(1), Op::Pos, Op::Read, Op::Pos] }, &f);
                        }
                    }
                    // far seeks (D10)
                    for far in [2u64, 5, 1 << 40, 1 << 62] {
                        for tail in [Op::Read, Op::Pos, Op::Seek(0), Op::Len] {
                            for owned in [true, false] {
                                if kind == Kind::WriterVec && far >= 1 << 40 {
                                    // a successful seek is impossible (beyond len), a write there would allocate: seek must fail
                                }
                                part.check(&Case { kind, w, owned, init: init.clone(), ops: vec![Op::Read, Op::Seek(far), tail, Op::Read, Op::Pos] }, &f);
                            }
                        }
                    }
                }
                part.finish()
            }));
        }
    }
    let n_rand = ctx.t(20_000u64, 600_000);
    for j in 0..8 {
        jobs.push(Box::new(move |ctx: &Ctx| {
            let mut part = Part::new(ctx, format!("random/{}", j), "proptest byte strings decoded into call sequences up to length 200", false);
            part.random(n_rand, 420, &|s: &mut Src| gen_case(s), &|c: &Case| check_case(c, env));
            part.finish()
        }));
    }
    run_jobs(ctx, jobs)
}

pub fn gen_case(s: &mut Src) -> Case {
    let kind = s.pick(&KINDS);
    let w = s.pick(&Wd::WRITER);
    let n = s.below(9);
    let init: Vec<u8> = (0..n).map(|_| s.u8()).collect();
    let k = s.range(1, 200);
    let ops = (0..k)
        .map(|_| match s.weighted(&[4, 4, 2, 3, 1]) {
            0 => Op::Read,
            1 => Op::Write(s.u8()),
            2 => Op::Pos,
            3 => Op::Seek(match s.weighted(&[6, 1]) {
                0 => s.below(n + 6) as u64,
                _ => s.pick(&[1u64 << 40, 1 << 62, 1000]),
            }),
            _ => Op::Len,
        })
        .collect();
    Case { kind, w, owned: s.bool(), init, ops }
}

fn replay(v: &serde_json::Value, env: &Env) -> CheckResult {
    let c: Case = serde_json::from_value(v.clone()).map_err(|e| Failure::new("replay/parse", e.to_string()))?;
    run_guarded(&c, &|c: &Case| check_case(c, env))
}
