//! Shared generators (decoders from a byte source), used by proptest-driven random parts and by
//! the libFuzzer targets alike.

use crate::calls::*;
use crate::ops::*;
use vcore::engine::Src;
use vcore::grid;
use vcore::{Code, En};

pub fn gen_en(s: &mut Src) -> En {
    if s.bool() {
        En::LE
    } else {
        En::BE
    }
}

/// Width of a fixed-width operation: every value 0..=64, with extra weight on the edges.
pub fn gen_width(s: &mut Src, word_bits: usize) -> u8 {
    match s.weighted(&[6, 1, 1, 1, 1, 1]) {
        0 => s.below(65) as u8,
        1 => 64,
        2 => 0,
        3 => 63,
        4 => (word_bits.min(64)) as u8,
        _ => ((word_bits.min(64) + 64 - 1 + s.below(3)) % 65) as u8,
    }
}

/// Argument of a fixed-width write: clean, one stray bit above n, or all ones above n.
pub fn gen_bits_value(s: &mut Src, n: u8, allow_dirty: bool) -> u64 {
    let raw = s.u64();
    let clean = raw & mask64(n as usize);
    if !allow_dirty || n >= 64 {
        return clean;
    }
    match s.weighted(&[3, 1, 1]) {
        0 => clean,
        1 => clean | (1u64 << (n as usize + s.below(64 - n as usize))),
        _ => clean | !mask64(n as usize),
    }
}

pub fn gen_unary_value(s: &mut Src, word_bits: usize) -> u64 {
    match s.weighted(&[4, 2, 2, 1]) {
        0 => s.below(9) as u64,
        1 => (word_bits + s.below(5)).saturating_sub(2) as u64,
        2 => (2 * word_bits + s.below(5)).saturating_sub(2) as u64,
        _ => s.below(grid::UNARY_CAP as usize + 1) as u64,
    }
}

/// A primitive writer operation (no codes).
pub fn gen_wop_prim(s: &mut Src, word_bits: usize, allow_dirty: bool, allow_flush: bool) -> WOp {
    match s.weighted(&[6, 3, if allow_flush { 1 } else { 0 }]) {
        0 => {
            let n = gen_width(s, word_bits);
            WOp::Bits { v: gen_bits_value(s, n, allow_dirty), n }
        }
        1 => WOp::Unary(gen_unary_value(s, word_bits)),
        _ => WOp::Flush,
    }
}

pub const SMALL_PARAMS: &[u32] = &[0, 1, 2, 3, 4, 5, 6, 7, 8, 9, 10];

/// A code with a parameter drawn from the documented domain (D6), biased to small parameters.
pub fn gen_code(s: &mut Src) -> Code {
    let fam = s.below(12);
    let k = match s.weighted(&[5, 2, 1]) {
        0 => s.below(11) as u32,
        1 => s.pick(&[11u32, 12, 15, 16, 17, 31, 32, 33, 62, 63]),
        _ => s.below(64) as u32,
    };
    match fam {
        0 => Code::Unary,
        1 => Code::Gamma,
        2 => Code::Delta,
        3 => Code::Omega,
        4 => Code::Zeta(k.max(1)),
        5 => Code::Pi(k),
        6 => Code::Golomb(gen_modulus(s)),
        7 => Code::Rice(k),
        8 => Code::ExpGolomb(k),
        9 => Code::MinBin(gen_modulus(s)),
        10 => Code::VByteBe,
        _ => Code::VByteLe,
    }
}

pub fn gen_modulus(s: &mut Src) -> u64 {
    match s.weighted(&[5, 2, 2, 1]) {
        0 => 1 + s.below(64) as u64,
        1 => s.pick(grid::GOLOMB_BS),
        2 => s.near_pow2().max(1),
        _ => s.mag64().max(1),
    }
}

/// A value in the domain of `c` (D5), biased to where the code changes shape.
pub fn gen_value(s: &mut Src, c: Code) -> u64 {
    let raw = match s.weighted(&[4, 3, 2, 1, 1]) {
        0 => s.below(1100) as u64,
        1 => s.near_pow2(),
        2 => s.mag64(),
        3 => c.max_value().wrapping_sub(s.below(3) as u64),
        _ => match c {
            Code::Golomb(b) | Code::MinBin(b) => {
                let l = 63 - b.leading_zeros();
                let limit = ((1u128 << (l + 1)) - b as u128) as u64;
                limit.wrapping_add(s.below(3) as u64).wrapping_sub(1).wrapping_add((s.below(4) as u64).wrapping_mul(b))
            }
            _ => s.u64(),
        },
    };
    grid::fold(c, raw)
}

/// One way of invoking `c` (table options included).
pub fn gen_call(s: &mut Src, c: Code) -> Call {
    let v = Call::variants(c);
    v[s.below(v.len())]
}

pub fn gen_wd_writer(s: &mut Src) -> Wd {
    s.pick(&Wd::WRITER)
}
pub fn gen_rkind(s: &mut Src) -> RKind {
    s.pick(&RKind::ALL)
}
