//! The vocabulary shared by all properties: configurations, code invocations, operations.

use serde::{Deserialize, Serialize};
use vcore::{Code, En};

#[derive(Clone, Copy, PartialEq, Eq, Hash, Debug, Serialize, Deserialize, PartialOrd, Ord)]
pub enum Wd {
    U8,
    U16,
    U32,
    U64,
    U128,
}

impl Wd {
    pub const WRITER: [Wd; 5] = [Wd::U8, Wd::U16, Wd::U32, Wd::U64, Wd::U128];
    pub const READER: [Wd; 4] = [Wd::U8, Wd::U16, Wd::U32, Wd::U64];
    pub fn bits(self) -> usize {
        match self {
            Wd::U8 => 8,
            Wd::U16 => 16,
            Wd::U32 => 32,
            Wd::U64 => 64,
            Wd::U128 => 128,
        }
    }
    pub fn bytes(self) -> usize {
        self.bits() / 8
    }
}

/// Table option of a one-table code.
#[derive(Clone, Copy, PartialEq, Eq, Hash, Debug, Serialize, Deserialize, PartialOrd, Ord)]
pub enum Tb {
    /// the parameterless trait method (`read_gamma`, `write_gamma`, ...)
    Default,
    On,
    Off,
}

impl Tb {
    pub const ALL: [Tb; 3] = [Tb::Default, Tb::On, Tb::Off];
}

#[derive(Clone, Copy, PartialEq, Eq, Hash, Debug, Serialize, Deserialize, PartialOrd, Ord)]
pub enum Tb2 {
    Default,
    /// (USE_DELTA_TABLE, USE_GAMMA_TABLE)
    T(bool, bool),
}

impl Tb2 {
    pub const ALL: [Tb2; 5] = [Tb2::Default, Tb2::T(false, false), Tb2::T(false, true), Tb2::T(true, false), Tb2::T(true, true)];
}

/// How a code is invoked on a reader or a writer.
#[derive(Clone, Copy, PartialEq, Eq, Hash, Debug, Serialize, Deserialize, PartialOrd, Ord)]
pub enum Call {
    Unary,
    Gamma(Tb),
    Delta(Tb2),
    /// zeta_3 through the specialised methods
    Zeta3(Tb),
    /// zeta_k through `read_zeta(k)` / `write_zeta(v, k)` (Default) or the `_param` variants
    Zeta(u32, Tb),
    Omega,
    Pi(u32),
    Golomb(u64),
    Rice(u32),
    ExpGolomb(u32),
    MinBin(u64),
    VByteBe,
    VByteLe,
}

impl Call {
    pub fn code(&self) -> Code {
        match *self {
            Call::Unary => Code::Unary,
            Call::Gamma(_) => Code::Gamma,
            Call::Delta(_) => Code::Delta,
            Call::Zeta3(_) => Code::Zeta(3),
            Call::Zeta(k, _) => Code::Zeta(k),
            Call::Omega => Code::Omega,
            Call::Pi(k) => Code::Pi(k),
            Call::Golomb(b) => Code::Golomb(b),
            Call::Rice(k) => Code::Rice(k),
            Call::ExpGolomb(k) => Code::ExpGolomb(k),
            Call::MinBin(u) => Code::MinBin(u),
            Call::VByteBe => Code::VByteBe,
            Call::VByteLe => Code::VByteLe,
        }
    }
    /// The plainest way to invoke a code (no table parameter).
    pub fn plain(c: Code) -> Call {
        match c {
            Code::Unary => Call::Unary,
            Code::Gamma => Call::Gamma(Tb::Off),
            Code::Delta => Call::Delta(Tb2::T(false, false)),
            Code::Omega => Call::Omega,
            Code::Zeta(k) => Call::Zeta(k, Tb::Off),
            Code::Pi(k) => Call::Pi(k),
            Code::Golomb(b) => Call::Golomb(b),
            Code::Rice(k) => Call::Rice(k),
            Code::ExpGolomb(k) => Call::ExpGolomb(k),
            Code::MinBin(u) => Call::MinBin(u),
            Code::VByteBe => Call::VByteBe,
            Code::VByteLe => Call::VByteLe,
        }
    }
    /// All the ways the library offers to invoke `c`.
    pub fn variants(c: Code) -> Vec<Call> {
        match c {
            Code::Gamma => Tb::ALL.iter().map(|&t| Call::Gamma(t)).collect(),
            Code::Delta => Tb2::ALL.iter().map(|&t| Call::Delta(t)).collect(),
            Code::Zeta(3) => {
                let mut v: Vec<Call> = Tb::ALL.iter().map(|&t| Call::Zeta3(t)).collect();
                v.extend(Tb::ALL.iter().map(|&t| Call::Zeta(3, t)));
                v
            }
            Code::Zeta(k) => Tb::ALL.iter().map(|&t| Call::Zeta(k, t)).collect(),
            _ => vec![Call::plain(c)],
        }
    }
    /// Which decoding tables this call may consult when *reading* (by table name).
    pub fn read_tables(&self) -> Vec<&'static str> {
        match *self {
            Call::Gamma(Tb::On) => vec!["gamma"],
            Call::Gamma(_) => vec![], // the default read_gamma uses no table
            Call::Delta(Tb2::Default) => vec!["gamma"], // read_delta_param::<false, true>
            Call::Delta(Tb2::T(d, g)) => {
                let mut v = vec![];
                if d {
                    v.push("delta");
                }
                if g {
                    v.push("gamma");
                }
                v
            }
            Call::Zeta3(Tb::Default) | Call::Zeta3(Tb::On) => vec!["zeta"],
            // exp-Golomb goes through read_gamma (no table); everything else is table free
            _ => vec![],
        }
    }
}

#[derive(Clone, Copy, PartialEq, Eq, Hash, Debug, Serialize, Deserialize, PartialOrd, Ord)]
pub enum WBackend {
    /// MemWordWriterVec owning its Vec
    VecOwned,
    /// MemWordWriterVec over `&mut Vec`
    VecBorrowed,
    /// MemWordWriterSlice over a zeroed slice sized by the model
    Slice,
    /// WordAdapter over Cursor<Vec<u8>>
    Adapter,
    /// harness-owned WordWrite that records every delivered word
    Recording,
    /// WordAdapter over a harness-owned byte sink that accepts at most 3 bytes per write call
    /// (short writes are allowed by the std::io::Write contract)
    AdapterChunked,
}

impl WBackend {
    pub const ALL: [WBackend; 6] = [WBackend::VecOwned, WBackend::VecBorrowed, WBackend::Slice, WBackend::Adapter, WBackend::Recording, WBackend::AdapterChunked];
}

/// How the writer is terminated.
#[derive(Clone, Copy, PartialEq, Eq, Hash, Debug, Serialize, Deserialize, PartialOrd, Ord)]
pub enum WEnd {
    IntoInner,
    Drop,
    FlushThenDrop,
    FlushTwiceThenIntoInner,
    /// unwrap a counting wrapper with `into_inner()` (nothing to unwrap on a bare writer), write the
    /// 4-bit sentinel 0b1011 on the writer that comes out, then `into_inner()`: unwrapping must not
    /// disturb the stream (no flush, no padding). Not in `ALL`: used by C14 only.
    UnwrapThenWrite,
}

impl WEnd {
    pub const ALL: [WEnd; 4] = [WEnd::IntoInner, WEnd::Drop, WEnd::FlushThenDrop, WEnd::FlushTwiceThenIntoInner];
}

#[derive(Clone, Copy, PartialEq, Eq, Hash, Debug, Serialize, Deserialize, PartialOrd, Ord)]
pub enum WWrap {
    None,
    Count,
    Dbg,
    /// CountBitWriter<_, _, true> (the variant that also prints every operation); always over an owned
    /// growable vector, whatever `backend` says
    CountPrint,
    /// CountBitWriter created in mid-stream: the three bits 0b101 are written on the bare writer before it is
    /// wrapped (they are part of the stream but not of the wrapper's count)
    CountMid,
}

#[derive(Clone, Copy, PartialEq, Eq, Hash, Debug, Serialize, Deserialize, PartialOrd, Ord)]
pub struct WCfg {
    pub e: En,
    pub w: Wd,
    pub backend: WBackend,
    pub wrap: WWrap,
}

impl WCfg {
    pub fn new(e: En, w: Wd, backend: WBackend) -> Self {
        WCfg { e, w, backend, wrap: WWrap::None }
    }
}

#[derive(Clone, Copy, PartialEq, Eq, Hash, Debug, Serialize, Deserialize, PartialOrd, Ord)]
pub enum RKind {
    Buf(Wd),
    /// the unbuffered BitReader (u64 backend)
    Unbuf,
}

impl RKind {
    pub const ALL: [RKind; 5] = [RKind::Buf(Wd::U8), RKind::Buf(Wd::U16), RKind::Buf(Wd::U32), RKind::Buf(Wd::U64), RKind::Unbuf];
    pub fn word(&self) -> Wd {
        match *self {
            RKind::Buf(w) => w,
            RKind::Unbuf => Wd::U64,
        }
    }
    /// largest `n` accepted by peek_bits
    pub fn peek_max(&self) -> usize {
        match *self {
            RKind::Buf(w) => w.bits(),
            RKind::Unbuf => 32,
        }
    }
    pub fn name(&self) -> String {
        match *self {
            RKind::Buf(w) => format!("buf{}", w.bits()),
            RKind::Unbuf => "unbuf".into(),
        }
    }
}

#[derive(Clone, Copy, PartialEq, Eq, Hash, Debug, Serialize, Deserialize, PartialOrd, Ord)]
pub enum RBackend {
    /// zero-extending MemWordReader over a borrowed slice
    InfBorrowed,
    /// zero-extending MemWordReader owning a Vec
    InfOwned,
    /// MemWordReader::new_strict
    Strict,
    /// MemWordWriterVec used as a reader
    VecReadback,
    /// MemWordWriterSlice used as a reader
    SliceReadback,
    /// WordAdapter over Cursor<Vec<u8>>
    AdapterCursor,
    /// WordAdapter over BufReader<Cursor<Vec<u8>>> (tiny capacity)
    AdapterBufReader,
}

impl RBackend {
    pub const ALL: [RBackend; 7] = [
        RBackend::InfBorrowed,
        RBackend::InfOwned,
        RBackend::Strict,
        RBackend::VecReadback,
        RBackend::SliceReadback,
        RBackend::AdapterCursor,
        RBackend::AdapterBufReader,
    ];
    pub const STRICT: [RBackend; 5] =
        [RBackend::Strict, RBackend::VecReadback, RBackend::SliceReadback, RBackend::AdapterCursor, RBackend::AdapterBufReader];
    pub fn zero_ext(&self) -> bool {
        matches!(self, RBackend::InfBorrowed | RBackend::InfOwned)
    }
}

#[derive(Clone, Copy, PartialEq, Eq, Hash, Debug, Serialize, Deserialize, PartialOrd, Ord)]
pub enum RWrap {
    None,
    Count,
    Dbg,
    /// CountBitReader<_, _, true> (the variant that also prints every operation); always over an owned
    /// zero-extended memory reader, whatever `backend` says
    CountPrint,
}

#[derive(Clone, Copy, PartialEq, Eq, Hash, Debug, Serialize, Deserialize, PartialOrd, Ord)]
pub struct RCfg {
    pub e: En,
    pub r: RKind,
    pub backend: RBackend,
    pub wrap: RWrap,
    /// bits consumed from the bare reader *before* it is wrapped (the wrapper then starts in mid-stream)
    #[serde(default)]
    pub pre: u16,
}

impl RCfg {
    pub fn new(e: En, r: RKind, backend: RBackend) -> Self {
        RCfg { e, r, backend, wrap: RWrap::None, pre: 0 }
    }
    pub fn name(&self) -> String {
        format!("{}/{}/{:?}{}", self.e.name(), self.r.name(), self.backend, match self.wrap {
            RWrap::None => "",
            RWrap::Count => "/count",
            RWrap::Dbg => "/dbg",
            RWrap::CountPrint => "/countprint",
        })
    }
}

impl WCfg {
    pub fn name(&self) -> String {
        format!("{}/w{}/{:?}{}", self.e.name(), self.w.bits(), self.backend, match self.wrap {
            WWrap::None => "",
            WWrap::Count => "/count",
            WWrap::Dbg => "/dbg",
            WWrap::CountPrint => "/countprint",
            WWrap::CountMid => "/countmid",
        })
    }
}
