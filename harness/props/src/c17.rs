//! C17 — signed/natural mapping is a bijection on every integer width.

use crate::{Env, PropDef};
use dsi_bitstream::prelude::{ToInt, ToNat};
use serde::{Deserialize, Serialize};
use vcore::engine::*;
use vcore::fail;
use vcore::grid::Rng;

#[derive(Clone, Copy, PartialEq, Eq, Hash, Debug, Serialize, Deserialize)]
pub enum Ty {
    B8,
    B16,
    B32,
    B64,
    B128,
    Size,
}

/// a 128-bit pattern, serialised as a hexadecimal string (JSON numbers stop at 64 bits)
#[derive(Clone, Copy, PartialEq, Eq, Hash, Debug)]
pub struct H(pub u128);
impl Serialize for H {
    fn serialize<S: serde::Serializer>(&self, s: S) -> Result<S::Ok, S::Error> {
        s.serialize_str(&format!("{:#x}", self.0))
    }
}
impl<'de> Deserialize<'de> for H {
    fn deserialize<D: serde::Deserializer<'de>>(d: D) -> Result<Self, D::Error> {
        let s = String::deserialize(d)?;
        u128::from_str_radix(s.trim_start_matches("0x"), 16).map(H).map_err(serde::de::Error::custom)
    }
}

#[derive(Clone, PartialEq, Eq, Hash, Debug, Serialize, Deserialize)]
pub enum Case {
    /// all naturals start..start+len of the type (and the integers with the same bit patterns)
    Range { ty: Ty, start: H, len: u64, stride: u64 },
    /// explicit bit patterns
    Points { ty: Ty, pats: Vec<H> },
}

pub const DEF: PropDef = PropDef {
    id: "C17",
    rule: "Cases are batches of bit patterns of one integer width; each pattern p is used both as a natural n (to_int) and as the integer with \
the same bits (to_nat). Exhaustive for 8, 16 and 32 bits in the optimised build (2^32 patterns; the debug-assertions build enumerates 8 and 16 \
bits completely and 32 bits with stride 251); for 64-bit, 128-bit and pointer-size types: every pattern within 2^16 (quick: 2^12) of 0, MIN, MAX, \
MIN/2, MAX/2 and of every power of two of either sign, plus seeded random patterns. Oracle, written independently in wider arithmetic: to_nat(x) = 2x for x >= 0 and -2x-1 \
otherwise; to_int(n) = n/2 for even n and -(n+1)/2 otherwise; to_int(to_nat(x)) == x; to_nat(to_int(n)) == n; to_nat(x) <= 2|x|. Non-trivial: \
negative x / odd n, or within 2 of MIN / MAX; distinct = distinct batch hashes (elementary_checks counts the individual patterns).",
    assumptions: &["closed formulas evaluated in i128/u128 (for 128-bit types via the overflow-free rearrangements 2*(-(x+1))+1 and -(n/2)-1)"],
    run,
    replay,
    from_bytes: None,
};

macro_rules! check_ty {
    ($u:ty, $i:ty, $p:expr, $name:expr) => {{
        let n: $u = $p as $u;
        let x: $i = n as $i;
        // reference to_nat
        let exp_nat: $u = if x >= 0 { (x as $u).wrapping_mul(2) } else { (((-(x + 1)) as $u).wrapping_mul(2)).wrapping_add(1) };
        // the rearrangements above cannot overflow: x >= 0 => 2x <= MAX_U - 1; x < 0 => -(x+1) in 0..=MAX_I
        let got_nat = x.to_nat();
        if got_nat != exp_nat {
            fail!(format!("to_nat/{}", $name), "to_nat({}) = {}, expected {}", x, got_nat, exp_nat);
        }
        let exp_int: $i = if n % 2 == 0 { (n / 2) as $i } else { -((n / 2) as $i) - 1 };
        let got_int = n.to_int();
        if got_int != exp_int {
            fail!(format!("to_int/{}", $name), "to_int({}) = {}, expected {}", n, got_int, exp_int);
        }
        if got_nat.to_int() != x {
            fail!(format!("inverse/{}", $name), "to_int(to_nat({})) = {}", x, got_nat.to_int());
        }
        if got_int.to_nat() != n {
            fail!(format!("inverse/{}", $name), "to_nat(to_int({})) = {}", n, got_int.to_nat());
        }
        // magnitudes close to zero map to small naturals: to_nat(x) <= 2|x|
        let mag: $u = x.unsigned_abs();
        if mag <= <$u>::MAX / 2 && got_nat > mag * 2 {
            fail!(format!("magnitude/{}", $name), "to_nat({}) = {} > 2|x|", x, got_nat);
        }
        (x < 0 || n % 2 == 1, n <= 2 || n >= <$u>::MAX - 2 || x <= <$i>::MIN + 2 || x >= <$i>::MAX - 2)
    }};
}

fn check_pat(ty: Ty, p: u128, o: &mut Outcome) -> Result<(), Failure> {
    let (neg, edge) = match ty {
        Ty::B8 => check_ty!(u8, i8, p, "8"),
        Ty::B16 => check_ty!(u16, i16, p, "16"),
        Ty::B32 => check_ty!(u32, i32, p, "32"),
        Ty::B64 => check_ty!(u64, i64, p, "64"),
        Ty::B128 => check_ty!(u128, i128, p, "128"),
        Ty::Size => check_ty!(usize, isize, p, "size"),
    };
    if neg {
        o.nt("negative_or_odd");
    }
    if edge {
        o.nt("within_2_of_extreme");
    }
    o.units += 1;
    Ok(())
}

pub fn check_case(c: &Case, _env: &Env) -> CheckResult {
    let mut o = Outcome::new();
    match c {
        Case::Range { ty, start, len, stride } => {
            let mut p = start.0;
            for _ in 0..*len {
                check_pat(*ty, p, &mut o)?;
                p = p.wrapping_add(*stride as u128);
            }
        }
        Case::Points { ty, pats } => {
            for &p in pats {
                check_pat(*ty, p.0, &mut o)?;
            }
        }
    }
    Ok(o)
}

fn bits_of(ty: Ty) -> u32 {
    match ty {
        Ty::B8 => 8,
        Ty::B16 => 16,
        Ty::B32 => 32,
        Ty::B64 | Ty::Size => 64,
        Ty::B128 => 128,
    }
}

fn run(ctx: &Ctx, env: &Env) -> Stats {
    let mut jobs: Vec<Job> = vec![];
    for ty in [Ty::B8, Ty::B16] {
        jobs.push(Box::new(move |ctx: &Ctx| {
            let mut part = Part::new(ctx, format!("exhaustive/{:?}", ty), "every bit pattern of the type", true);
            let f = |c: &Case| check_case(c, env);
            let total = 1u64 << bits_of(ty);
            let mut s = 0u64;
            while s < total {
                part.check(&Case::Range { ty, start: H(s as u128), len: 256, stride: 1 }, &f);
                s += 256;
            }
            part.finish()
        }));
    }
    // 32 bits: exhaustive in the optimised build, strided under debug assertions / quick
    let full32 = !env.debug_assertions && !ctx.quick();
    let chunks = 64u64;
    for ch in 0..chunks {
        jobs.push(Box::new(move |ctx: &Ctx| {
            let stride: u64 = if full32 { 1 } else if env.debug_assertions { 251 } else { 17 };
            let mut part = Part::new(ctx, format!("b32/{}", ch), if full32 { "every 32-bit pattern" } else { "32-bit patterns with a fixed stride" }, full32);
            let f = |c: &Case| check_case(c, env);
            let lo = (1u64 << 32) / chunks * ch;
            let hi = (1u64 << 32) / chunks * (ch + 1);
            let mut s = lo;
            while s < hi {
                let len = ((hi - s).div_ceil(stride)).min(1 << 16);
                part.check(&Case::Range { ty: Ty::B32, start: H(s as u128), len, stride }, &f);
                s += len * stride;
            }
            part.finish()
        }));
    }
    let near = ctx.t(1u128 << 12, 1 << 16);
    for ty in [Ty::B64, Ty::B128, Ty::Size] {
        jobs.push(Box::new(move |ctx: &Ctx| {
            let mut part = Part::new(ctx, format!("edges/{:?}", ty), "every pattern within the bound of 0, MIN, MAX and every power of two", true);
            let f = |c: &Case| check_case(c, env);
            let b = bits_of(ty);
            let mask: u128 = if b == 128 { u128::MAX } else { (1u128 << b) - 1 };
            let mut centers: Vec<u128> = vec![0, mask, 1u128 << (b - 1)];
            for i in 1..b - 1 {
                centers.push(1u128 << i);
                // the integer -2^i (two's complement pattern)
                centers.push((mask - (1u128 << i)).wrapping_add(1) & mask);
            }
            // MIN/2, MAX/2 and their neighbours as integers; 3 * 2^(b-2) as a natural
            centers.push((1u128 << (b - 1)) | (1u128 << (b - 2)));
            centers.push((1u128 << (b - 2)) - 1);
            for c0 in centers {
                let start = c0.wrapping_sub(near) & mask;
                // the range wraps inside the type thanks to the cast in check_ty
                let mut s = 0u128;
                while s < 2 * near {
                    let len = (2 * near - s).min(4096) as u64;
                    part.check(&Case::Range { ty, start: H(start.wrapping_add(s) & mask), len, stride: 1 }, &f);
                    s += len as u128;
                }
            }
            part.finish()
        }));
        jobs.push(Box::new(move |ctx: &Ctx| {
            let mut part = Part::new(ctx, format!("random/{:?}", ty), "seeded random patterns of all magnitudes", false);
            let f = |c: &Case| check_case(c, env);
            let mut r = Rng::new(ctx.seed ^ bits_of(ty) as u64);
            for _ in 0..ctx.t(250, 4000) {
                let pats: Vec<H> = (0..256)
                    .map(|_| {
                        let hi = r.next() as u128;
                        let lo = r.next() as u128;
                        let v = (hi << 64) | lo;
                        let sh = r.below(bits_of(ty) as u64 + 1) as u32;
                        if sh >= 128 {
                            H(0)
                        } else {
                            H(v >> sh)
                        }
                    })
                    .collect();
                part.check(&Case::Points { ty, pats }, &f);
            }
            part.finish()
        }));
    }
    run_jobs(ctx, jobs)
}

fn replay(v: &serde_json::Value, env: &Env) -> CheckResult {
    let c: Case = serde_json::from_value(v.clone()).map_err(|e| Failure::new("replay/parse", e.to_string()))?;
    run_guarded(&c, &|c: &Case| check_case(c, env))
}
