//! C16 — code names and identifiers round-trip.

use crate::dispatch::*;
use crate::ops::*;
use crate::{Env, PropDef};
use dsi_bitstream::prelude::*;
use serde::{Deserialize, Serialize};
use vcore::engine::*;
use vcore::grid;
use vcore::{fail, Code, En};

#[derive(Clone, PartialEq, Eq, Hash, Debug, Serialize, Deserialize)]
pub enum Case {
    /// Display then FromStr
    Text { code: Code },
    /// a malformed string must be rejected; `class` says why it is malformed
    Malformed { s: String, class: String },
    /// a lenient / odd form: must be rejected or, if accepted, denote exactly `same_as`
    Lenient { s: String, same_as: Option<Code> },
    /// to_code_const then from_code_const: identical codewords
    ToConst { code: Code },
    /// from_code_const then to_code_const: same identifier (in range) or Err (out of range)
    FromConst { id: u64 },
    /// `==` implies identical codewords and equal lengths
    Eq { a: Code, b: Code },
}

pub const DEF: PropDef = PropDef {
    id: "C16",
    rule: "Exhaustive enumeration: every enumeration variant x parameter 0..=64 and {2^16, 2^32, usize::MAX} formatted and parsed back (compared \
structurally, not with the library's ==); identifiers 0..=64 and {2^32, usize::MAX} through from_code_const/to_code_const; every code with \
parameter 0..=12 through to_code_const/from_code_const with codeword comparison on a value grid (both endiannesses); all pairs of codes with \
parameters 0..=12 for ==. Malformed strings from a grammar: empty, unknown names, case variations, known parameterised names with missing, empty, \
negative, non-numeric or overflowing parameter, parameterless names given a parameter. Oracle: parse(display(c)) is structurally c; the three \
malformed classes of the statement give Err; lenient forms the parser accepts are only required never to denote a different code (D12); identifier \
round trips; == implies byte-identical codewords and equal lengths on the grid. Non-trivial: every case but the trivially-equal pairs (a, a); \
distinct = distinct case hashes.",
    assumptions: &["structural comparison of enum values via dispatch::from_codes", "D12: only the malformed classes named by the property must be rejected"],
    run,
    replay,
    from_bytes: None,
};

fn same_codewords(a: &Codes, b: &Codes) -> Result<(), String> {
    // compare through the library's own writer (C10 pins the writer to the reference)
    let ca = from_codes(a);
    for e in En::ALL {
        let mut vals: Vec<u64> = (0..40).collect();
        vals.extend_from_slice(&[63, 64, 100, 255, 256, 1000, 65535, 1 << 20, (1 << 33) + 1]);
        for v in vals {
            let v = grid::fold(ca, v);
            let v = grid::fold(from_codes(b), v);
            let wa = d_write(e, Disp::CodesDyn, from_codes(a), None, 3, v)?;
            let wb = d_write(e, Disp::CodesDyn, from_codes(b), None, 3, v)?;
            if wa != wb {
                return Err(format!("value {} {}: {:?} writes {} ({} bits), {:?} writes {} ({} bits)", v, e.name(), a, hex(&wa.0), wa.1, b, hex(&wb.0), wb.1));
            }
            if CodeLen::len(a, v) != CodeLen::len(b, v) {
                return Err(format!("value {}: lengths differ {} vs {}", v, CodeLen::len(a, v), CodeLen::len(b, v)));
            }
        }
    }
    Ok(())
}

pub fn check_case(c: &Case, _env: &Env) -> CheckResult {
    let mut o = Outcome::new();
    o.nt("case");
    match c {
        Case::Text { code } => {
            let cc = to_codes(*code).unwrap();
            let s = cc.to_string();
            match s.parse::<Codes>() {
                Ok(back) => {
                    if from_codes(&back) != *code {
                        fail!(format!("text/{}/different", code.family()), "{:?} displays as {:?} which parses as {:?}", cc, s, back);
                    }
                }
                Err(e) => fail!(format!("text/{}/rejected", code.family()), "{:?} displays as {:?} which does not parse: {}", cc, s, e),
            }
        }
        Case::Malformed { s, class } => {
            if let Ok(code) = s.parse::<Codes>() {
                fail!(format!("malformed/{}", class), "malformed text {:?} ({}) was accepted as {:?}", s, class, code);
            }
        }
        Case::Lenient { s, same_as } => {
            if let Ok(code) = s.parse::<Codes>() {
                o.label("lenient_form_accepted");
                match same_as {
                    Some(exp) if from_codes(&code) == *exp => {}
                    _ => fail!("lenient/different", "text {:?} was accepted as {:?}, may only denote {:?}", s, code, same_as),
                }
            } else {
                o.label("lenient_form_rejected");
            }
        }
        Case::ToConst { code } => {
            let cc = to_codes(*code).unwrap();
            match cc.to_code_const() {
                Ok(id) => {
                    // the identifier must be one whose name denotes this code (or a documented synonym)
                    let back = Codes::from_code_const(id).map_err(|e| Failure::new("toconst/back_err", format!("{:?} -> {} -> Err({})", cc, id, e)))?;
                    if let Err(why) = same_codewords(&cc, &back) {
                        fail!(format!("toconst/{}/codewords", code.family()), "{:?} -> identifier {} -> {:?}: {}", cc, id, back, why);
                    }
                    o.label("has_identifier");
                }
                Err(_) => {
                    // only parameters beyond the documented set may lack an identifier
                    let documented = id_table().iter().any(|t| t.2 == *code);
                    if documented {
                        fail!(format!("toconst/{}/missing", code.family()), "{:?} has a named constant but to_code_const() fails", cc);
                    }
                    o.label("no_identifier");
                }
            }
        }
        Case::FromConst { id } => {
            let id = *id as usize;
            let named: Vec<_> = id_table().into_iter().filter(|t| t.1 == id).collect();
            match Codes::from_code_const(id) {
                Ok(code) => {
                    if named.is_empty() {
                        fail!("fromconst/out_of_range_accepted", "identifier {} is not a constant but maps to {:?}", id, code);
                    }
                    match code.to_code_const() {
                        Ok(back) if back == id => {}
                        o2 => fail!("fromconst/not_inverse", "identifier {} -> {:?} -> {:?}", id, code, o2),
                    }
                    // the code must have the codewords of every name of this identifier
                    for (name, _, denoted) in &named {
                        if let Err(why) = same_codewords(&code, &to_codes(*denoted).unwrap()) {
                            fail!("fromconst/codewords", "identifier {} ({}{}) maps to {:?}: {}", id, name, denoted.param(), code, why);
                        }
                    }
                }
                Err(e) => {
                    if !named.is_empty() {
                        fail!("fromconst/constant_rejected", "identifier {} ({}) is a constant but from_code_const fails: {}", id, named[0].0, e);
                    }
                    o.label("out_of_range_rejected");
                }
            }
        }
        Case::Eq { a, b } => {
            let (ca, cb) = (to_codes(*a).unwrap(), to_codes(*b).unwrap());
            if ca == cb {
                if a == b {
                    o.nontrivial = false;
                }
                if let Err(why) = same_codewords(&ca, &cb) {
                    fail!("eq/codewords", "{:?} == {:?} but {}", ca, cb, why);
                }
                o.label("equal");
            } else {
                if a == b {
                    fail!("eq/irreflexive", "{:?} != itself", ca);
                }
                if cb == ca {
                    fail!("eq/asymmetric", "{:?} != {:?} but the converse holds", ca, cb);
                }
                o.label("not_equal");
            }
        }
    }
    Ok(o)
}

fn all_variants(params: &[u64]) -> Vec<Code> {
    let mut v = vec![Code::Unary, Code::Gamma, Code::Delta, Code::Omega, Code::VByteBe, Code::VByteLe];
    for &p in params {
        // Codes stores usize parameters: any value is a legal enum value as far as text is concerned
        v.push(Code::Golomb(p));
        if p <= u32::MAX as u64 {
            v.push(Code::Zeta(p as u32));
            v.push(Code::Pi(p as u32));
            v.push(Code::Rice(p as u32));
            v.push(Code::ExpGolomb(p as u32));
        }
    }
    v
}

fn malformed() -> Vec<Case> {
    let mut v = vec![];
    let m = |s: &str, class: &str| Case::Malformed { s: s.to_string(), class: class.to_string() };
    for s in ["", " ", "gamma", "GAMMA", "Gamm", "Gammaa", "unary", "Epsilon", "Zeta", "Pi", "Golomb", "ExpGolomb", "Rice", "zeta(3)", "ZETA(3)", "Zetta(3)", "VByte", "VByteXe", "Foo(3)", "(3)", "3", "Rice Golomb", "Ζeta(3)"] {
        let class = if ["Zeta", "Pi", "Golomb", "ExpGolomb", "Rice"].contains(&s) { "missing_parameter" } else { "unknown_name" };
        v.push(m(s, class));
    }
    for name in ["Zeta", "Pi", "Golomb", "ExpGolomb", "Rice"] {
        for (p, class) in [
            ("()", "empty_parameter"),
            ("(", "empty_parameter"),
            ("(-1)", "negative_parameter"),
            ("(-0)", "negative_parameter"),
            ("(x)", "non_numeric_parameter"),
            ("(3x)", "non_numeric_parameter"),
            ("(0x10)", "non_numeric_parameter"),
            ("(3.0)", "non_numeric_parameter"),
            ("( 3)", "non_numeric_parameter"),
            ("(3 )", "non_numeric_parameter"),
            ("(18446744073709551616)", "overflowing_parameter"),
            ("(99999999999999999999999999)", "overflowing_parameter"),
            ("(k=3)", "non_numeric_parameter"),
            ("(²)", "non_numeric_parameter"),
        ] {
            v.push(m(&format!("{}{}", name, p), class));
        }
    }
    // lenient / odd forms: accepted or not, they must never denote a different code
    let l = |s: &str, same: Option<Code>| Case::Lenient { s: s.to_string(), same_as: same };
    v.push(l("Zeta(3", Some(Code::Zeta(3))));
    v.push(l("Zeta(3)x", Some(Code::Zeta(3))));
    v.push(l("Zeta(+3)", Some(Code::Zeta(3))));
    v.push(l("Zeta(03)", Some(Code::Zeta(3))));
    v.push(l("Zeta(3)(4)", Some(Code::Zeta(3))));
    v.push(l("Rice(5))", Some(Code::Rice(5))));
    for (s, c) in [("Unary", Code::Unary), ("Gamma", Code::Gamma), ("Delta", Code::Delta), ("Omega", Code::Omega), ("VByteBe", Code::VByteBe), ("VByteLe", Code::VByteLe)] {
        // a parameterless name followed by a *numeric* parameter is a lenient form (D12) ...
        v.push(l(&format!("{}(3)", s), Some(c)));
        // ... but a parameter that is missing its number, negative or not a number falls under the statement
        for (p, class) in [("()", "empty_parameter"), ("(", "empty_parameter"), ("(-1)", "negative_parameter"), ("(x)", "non_numeric_parameter"), ("(3x)", "non_numeric_parameter")] {
            v.push(m(&format!("{}{}", s, p), class));
        }
        v.push(l(&format!(" {}", s), Some(c)));
        v.push(l(&format!("{} ", s), Some(c)));
    }
    v
}

fn run(ctx: &Ctx, env: &Env) -> Stats {
    let mut jobs: Vec<Job> = vec![];
    jobs.push(Box::new(move |ctx: &Ctx| {
        let mut part = Part::new(ctx, "text", "every variant x parameter 0..=64 and large: display then parse; malformed and lenient strings", true);
        let f = |c: &Case| check_case(c, env);
        let mut params: Vec<u64> = (0..=64).collect();
        params.extend_from_slice(&[1 << 16, (1 << 32) - 1, 1 << 32, u64::MAX - 1, u64::MAX]);
        for code in all_variants(&params) {
            part.check(&Case::Text { code }, &f);
        }
        for c in malformed() {
            part.check(&c, &f);
        }
        part.finish()
    }));
    jobs.push(Box::new(move |ctx: &Ctx| {
        let mut part = Part::new(ctx, "identifiers", "identifiers 0..=64 and large through from/to_code_const; every code with parameter 0..=12 through to/from", true);
        let f = |c: &Case| check_case(c, env);
        for id in (0..=64u64).chain([1 << 32, u64::MAX]) {
            part.check(&Case::FromConst { id }, &f);
        }
        let params: Vec<u64> = (0..=12).collect();
        for code in all_variants(&params) {
            if matches!(code, Code::Zeta(0) | Code::Golomb(0)) {
                continue;
            }
            part.check(&Case::ToConst { code }, &f);
        }
        part.finish()
    }));
    let params: Vec<u64> = (0..=12).collect();
    let vars: Vec<Code> = all_variants(&params).into_iter().filter(|c| !matches!(c, Code::Zeta(0) | Code::Golomb(0))).collect();
    for (i, chunk) in vars.chunks(8).enumerate() {
        let chunk = chunk.to_vec();
        let vars = vars.clone();
        jobs.push(Box::new(move |ctx: &Ctx| {
            let mut part = Part::new(ctx, format!("eq/{}", i), "all pairs of codes with parameters 0..=12 for ==", true);
            let f = |c: &Case| check_case(c, env);
            for &a in &chunk {
                for &b in &vars {
                    part.check(&Case::Eq { a, b }, &f);
                }
            }
            part.finish()
        }));
    }
    run_jobs(ctx, jobs)
}

fn replay(v: &serde_json::Value, env: &Env) -> CheckResult {
    let c: Case = serde_json::from_value(v.clone()).map_err(|e| Failure::new("replay/parse", e.to_string()))?;
    run_guarded(&c, &|c: &Case| check_case(c, env))
}
