fn main() {
    std::process::exit(props::main_entry());
}
