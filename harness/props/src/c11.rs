//! C11 — byte-stream word adapter is transparent and loss-free under I/O faults.

use crate::adapters::{bytes_of, Wordy};
use crate::calls::*;
use crate::{Env, PropDef};
use dsi_bitstream::prelude::*;
use serde::{Deserialize, Serialize};
use std::cell::RefCell;
use std::io::{Cursor, ErrorKind, Read, Seek, Write};
use std::rc::Rc;
use vcore::engine::*;
use vcore::grid::Rng;
use vcore::{fail, BitVec, En};

#[derive(Clone, Copy, PartialEq, Eq, Hash, Debug, Serialize, Deserialize)]
pub enum Act {
    /// transfer at most this many bytes (0 allowed)
    Limit(u8),
    Interrupted,
    Fail,
}

#[derive(Clone, PartialEq, Eq, Hash, Debug, Serialize, Deserialize)]
pub enum Case {
    /// write_word x words through WordAdapter over a faulty Write, then flush
    WriteWords { w: Wd, n_words: u8, seed: u64, schedule: Vec<Act> },
    /// read_word through WordAdapter over a faulty Read
    ReadWords { w: Wd, n_words: u8, seed: u64, schedule: Vec<Act>, reads: u8 },
    /// word_pos / set_word_pos over a seekable byte stream: ops are (0 = read, 1 = pos, 2+k = seek k)
    Seekable { w: Wd, n_words: u8, seed: u64, ops: Vec<u8>, bufreader: bool },
    /// faults while reading (a word may be consumed half-way and the error reported), then an absolute
    /// set_word_pos(k) and a read: the word at index k must come back
    SeekAfterFault { w: Wd, n_words: u8, seed: u64, schedule: Vec<Act>, reads: u8, k: u8 },
    /// bit-level stream written through BufBitWriter<E, WordAdapter<W, faulty sink>>
    BitWrite { e: En, w: Wd, fields: Vec<(u64, u8)>, schedule: Vec<Act> },
    /// bit-level stream read through BufBitReader<E, WordAdapter<W, faulty source>>; a width above 64 stands for
    /// skip_bits(width - 64)
    BitRead { e: En, w: Wd, seed: u64, widths: Vec<u8>, schedule: Vec<Act> },
    /// bit-level stream written through BufBitWriter<E, WordAdapter<W, faulty sink>> and then *dropped* without an
    /// explicit flush while the sink is still faulty: the drop either delivers the last word or reports the loss
    /// the only way a destructor can (it panics, as the library documents); it never returns normally with bytes missing
    DropFault { e: En, w: Wd, fields: Vec<(u64, u8)>, schedule: Vec<Act> },
    /// std::io::Write::write_all on BufBitWriter<E, WordAdapter<W, faulty sink>> after `pre` bits, then flush
    IoWrite { e: En, w: Wd, pre: u8, slice: Vec<u8>, schedule: Vec<Act> },
    /// the byte sink's flush reports ErrorKind::Interrupted `faults` times and then succeeds; the caller retries
    /// (Interrupted is the retryable kind). `bit` = through BufBitWriter<E, WordAdapter<W, _>>, else WordAdapter alone.
    /// After the flush that returns Ok the sink must have been flushed and hold every byte exactly once; the
    /// `more` fields written afterwards must follow directly.
    FlushRetry { e: En, w: Wd, bit: bool, fields: Vec<(u64, u8)>, faults: u8, more: Vec<(u64, u8)> },
}

pub const DEF: PropDef = PropDef {
    id: "C11",
    rule: "Cases are (word size u8..u128, word sequence, fault schedule for the wrapped std::io object): per call the harness-owned Read/Write \
either transfers at most k bytes (k = 0..=requested: short transfers), or returns ErrorKind::Interrupted, or a hard error; after the schedule \
it behaves normally. Exhaustive: every schedule of up to 4 actions over the alphabet {limit 0..=W, Interrupted, hard error} for word sizes up \
to u32 on 2-word sequences (write side and read side); random schedules for all word sizes; seekable sources (Cursor, BufReader<Cursor>) with \
read_word / write_word / word_pos / set_word_pos sequences; an absolute set_word_pos(k) after a read error was reported must still \
address word k; word positions up to the top of the 64-bit byte-offset range over a synthetic seekable source; a byte sink whose flush reports Interrupted a few times before it succeeds, with the caller retrying (the flush that returns Ok \
must have reached the sink, every byte must be there exactly once, later writes follow directly); bit-level reads and skips with one fault at \
every backend call index (a skip that returns Ok must have passed over exactly that many bits); a bit writer dropped without an explicit flush while the sink is still faulty (the drop must deliver the last word or panic, never return \
normally with bytes missing); byte slices written with io::Write::write_all through a bit writer over the adapter; bit-level streams written and read through BufBitWriter/BufBitReader over the adapter, both \
endiannesses, compared with the memory image. Oracle: without faults the sink holds exactly the concatenated native-endian word bytes; with \
faults, whenever write_word / read_word / flush returns Ok every byte of that word was transferred exactly once and in order (sink == \
concatenation of all Ok words; word read == word at that index); whenever it returns Err the bytes received so far are the Ok words followed by \
a prefix of the failing word, and the history stops. word_pos() == number of words transferred; set_word_pos(k) then read_word() == word k. \
Non-trivial: the schedule contained a short transfer or an Interrupted that the operation met; distinct = distinct case hashes.",
    assumptions: &[
        "the std::io contracts: a Write may accept fewer bytes than offered, a Read may return fewer bytes than requested, Interrupted is retryable",
        "D15: sources hold whole words",
    ],
    run,
    replay,
    from_bytes: None,
};

#[derive(Default)]
struct Shared {
    schedule: Vec<Act>,
    next: usize,
    bytes: Vec<u8>,
    pos: usize,
    met_short: bool,
    met_interrupt: bool,
    met_fail: bool,
    armed: bool,
    /// bytes accepted since the sink's flush was last called
    unflushed: usize,
    /// the next `flush_faults` calls of the sink's flush return ErrorKind::Interrupted (and flush nothing)
    flush_faults: u8,
}

#[derive(Clone)]
struct Faulty(Rc<RefCell<Shared>>);

impl Faulty {
    fn new(schedule: &[Act], data: Vec<u8>) -> Self {
        Faulty(Rc::new(RefCell::new(Shared { schedule: schedule.to_vec(), bytes: data, armed: true, ..Default::default() })))
    }
    fn act(&self) -> Option<Act> {
        let mut s = self.0.borrow_mut();
        if !s.armed || s.next >= s.schedule.len() {
            return None;
        }
        let a = s.schedule[s.next];
        s.next += 1;
        Some(a)
    }
}

impl Write for Faulty {
    fn write(&mut self, buf: &[u8]) -> std::io::Result<usize> {
        let a = self.act();
        let mut s = self.0.borrow_mut();
        match a {
            Some(Act::Interrupted) => {
                s.met_interrupt = true;
                Err(ErrorKind::Interrupted.into())
            }
            Some(Act::Fail) => {
                s.met_fail = true;
                Err(std::io::Error::new(ErrorKind::Other, "injected"))
            }
            Some(Act::Limit(k)) => {
                let k = (k as usize).min(buf.len());
                if k < buf.len() {
                    s.met_short = true;
                }
                s.bytes.extend_from_slice(&buf[..k]);
                s.unflushed += k;
                Ok(k)
            }
            None => {
                s.bytes.extend_from_slice(buf);
                s.unflushed += buf.len();
                Ok(buf.len())
            }
        }
    }
    fn flush(&mut self) -> std::io::Result<()> {
        let mut s = self.0.borrow_mut();
        if s.flush_faults > 0 {
            s.flush_faults -= 1;
            s.met_interrupt = true;
            return Err(ErrorKind::Interrupted.into());
        }
        s.unflushed = 0;
        Ok(())
    }
}

impl std::io::Seek for Faulty {
    fn seek(&mut self, pos: std::io::SeekFrom) -> std::io::Result<u64> {
        let mut s = self.0.borrow_mut();
        let len = s.bytes.len() as i128;
        let np: i128 = match pos {
            std::io::SeekFrom::Start(p) => p as i128,
            std::io::SeekFrom::Current(d) => s.pos as i128 + d as i128,
            std::io::SeekFrom::End(d) => len + d as i128,
        };
        if np < 0 {
            return Err(std::io::Error::new(ErrorKind::InvalidInput, "negative position"));
        }
        s.pos = (np as usize).min(s.bytes.len());
        Ok(np as u64)
    }
}

impl Read for Faulty {
    fn read(&mut self, buf: &mut [u8]) -> std::io::Result<usize> {
        let a = self.act();
        let mut s = self.0.borrow_mut();
        let rem = s.bytes.len() - s.pos;
        let k = match a {
            Some(Act::Interrupted) => {
                s.met_interrupt = true;
                return Err(ErrorKind::Interrupted.into());
            }
            Some(Act::Fail) => {
                s.met_fail = true;
                return Err(std::io::Error::new(ErrorKind::Other, "injected"));
            }
            Some(Act::Limit(k)) => {
                let k = (k as usize).min(buf.len()).min(rem);
                if k < buf.len().min(rem) {
                    s.met_short = true;
                }
                k
            }
            None => buf.len().min(rem),
        };
        let p = s.pos;
        buf[..k].copy_from_slice(&s.bytes[p..p + k]);
        s.pos += k;
        Ok(k)
    }
}

fn words_for<W: Wordy + From<u8>>(n: usize, seed: u64) -> Vec<u8> {
    let mut r = Rng::new(seed);
    (0..n * <W as Wordy>::BYTES).map(|_| r.next() as u8).collect()
}

macro_rules! for_w {
    ($wd:expr, $W:ident => $body:expr) => {
        match $wd {
            Wd::U8 => { type $W = u8; $body }
            Wd::U16 => { type $W = u16; $body }
            Wd::U32 => { type $W = u32; $body }
            Wd::U64 => { type $W = u64; $body }
            Wd::U128 => { type $W = u128; $body }
        }
    };
}

fn label_faults(o: &mut Outcome, f: &Faulty) {
    let s = f.0.borrow();
    if s.met_short {
        o.nt("short_transfer_met");
    }
    if s.met_interrupt {
        o.nt("interrupted_met");
    }
    if s.met_fail {
        o.label("hard_error_met");
    }
}

fn write_words<W: Wordy + From<u8> + dsi_bitstream::traits::Word>(n: usize, seed: u64, schedule: &[Act], wname: &str) -> CheckResult {
    let data = words_for::<W>(n, seed);
    let words: Vec<W> = crate::adapters::words_of::<W>(&data);
    let sink = Faulty::new(schedule, vec![]);
    let mut ad = WordAdapter::<W, _>::new(sink.clone());
    let mut o = Outcome::new();
    let mut ok_bytes: Vec<u8> = vec![];
    for (i, w) in words.iter().enumerate() {
        let before = sink.0.borrow().bytes.len();
        let r = ad.write_word(*w);
        let got = sink.0.borrow().bytes.clone();
        let wb = bytes_of::<W>(&[*w]);
        match r {
            Ok(()) => {
                ok_bytes.extend_from_slice(&wb);
                if got != ok_bytes {
                    label_faults(&mut o, &sink);
                    fail!(
                        format!("write_word/{}/ok_but_bytes_missing", wname),
                        "write_word #{} returned Ok but the sink received {} of {} bytes of the word (sink {} bytes, expected {}); schedule {:?}",
                        i, got.len() - before, wb.len(), got.len(), ok_bytes.len(), schedule
                    );
                }
            }
            Err(_) => {
                let extra = &got[ok_bytes.len().min(got.len())..];
                if got.len() < ok_bytes.len() || got[..ok_bytes.len()] != ok_bytes[..] || extra.len() > wb.len() || extra != &wb[..extra.len()] {
                    fail!(format!("write_word/{}/err_state", wname), "write_word #{} returned Err and the sink is not (Ok words + prefix of the failing word)", i);
                }
                o.label("error_reported");
                label_faults(&mut o, &sink);
                return Ok(o);
            }
        }
    }
    let fl = WordWrite::flush(&mut ad);
    if fl.is_ok() && sink.0.borrow().unflushed != 0 {
        fail!(format!("flush/{}/not_propagated", wname), "WordAdapter::flush returned Ok without flushing the byte sink");
    }
    if fl.is_ok() && sink.0.borrow().bytes != data {
        fail!(format!("flush/{}", wname), "after flush the sink differs from the concatenated word bytes");
    }
    label_faults(&mut o, &sink);
    Ok(o)
}

fn read_words<W: Wordy + From<u8> + dsi_bitstream::traits::Word + PartialEq + std::fmt::Debug>(n: usize, seed: u64, schedule: &[Act], reads: usize, wname: &str) -> CheckResult {
    let data = words_for::<W>(n, seed);
    let words: Vec<W> = crate::adapters::words_of::<W>(&data);
    let src = Faulty::new(schedule, data.clone());
    let mut ad = WordAdapter::<W, _>::new(src.clone());
    let mut o = Outcome::new();
    for i in 0..reads {
        match ad.read_word() {
            Ok(w) => {
                if i >= n {
                    fail!(format!("read_word/{}/beyond_end", wname), "read_word #{} returned Ok({:?}) beyond the {} words of the source", i, w, n);
                }
                if w != words[i] {
                    label_faults(&mut o, &src);
                    fail!(format!("read_word/{}/value", wname), "read_word #{} returned {:?}, the source holds {:?}; schedule {:?}", i, w, words[i], schedule);
                }
                if src.0.borrow().pos != (i + 1) * <W as Wordy>::BYTES {
                    fail!(format!("read_word/{}/consumed", wname), "read_word #{} returned Ok but consumed {} bytes in total, expected {}", i, src.0.borrow().pos, (i + 1) * <W as Wordy>::BYTES);
                }
            }
            Err(_) => {
                o.label("error_reported");
                if i >= n {
                    o.label("end_of_source");
                }
                break;
            }
        }
    }
    label_faults(&mut o, &src);
    Ok(o)
}

type WriteFn<W, B> = fn(&mut WordAdapter<W, B>, W) -> Result<(), String>;

fn seek_after_fault<W: Wordy + From<u8> + dsi_bitstream::traits::Word + PartialEq + std::fmt::Debug>(n: usize, seed: u64, schedule: &[Act], reads: usize, k: usize, wname: &str) -> CheckResult {
    let data = words_for::<W>(n, seed);
    let words: Vec<W> = crate::adapters::words_of::<W>(&data);
    let src = Faulty::new(schedule, data.clone());
    let mut ad = WordAdapter::<W, _>::new(src.clone());
    let mut o = Outcome::new();
    let mut errored = false;
    for i in 0..reads {
        match ad.read_word() {
            Ok(w) => {
                if i >= n || w != words[i] {
                    fail!(format!("read_word/{}/value", wname), "read_word #{} returned {:?}, the source holds {:?}", i, w, words.get(i));
                }
            }
            Err(_) => {
                errored = true;
                break;
            }
        }
    }
    // no more faults; an absolute seek re-establishes the position whatever happened before
    src.0.borrow_mut().armed = false;
    let k = k % (n + 1);
    if ad.set_word_pos(k as u64).is_err() {
        fail!(format!("seek_after_fault/{}/set_word_pos", wname), "set_word_pos({}) failed on a {}-word source", k, n);
    }
    match ad.read_word() {
        Ok(w) => {
            if k >= n || w != words[k] {
                label_faults(&mut o, &src);
                fail!(
                    format!("seek_after_fault/{}/value", wname),
                    "after {} set_word_pos({}) then read_word returned {:?}, word {} of the source is {:?}; schedule {:?}",
                    if errored { "a reported read error" } else { "successful reads" }, k, w, k, words.get(k), schedule
                );
            }
        }
        Err(_) => {
            if k < n {
                fail!(format!("seek_after_fault/{}/err", wname), "set_word_pos({}) then read_word failed although the source holds {} words", k, n);
            }
        }
    }
    if errored {
        o.nt("seek_after_reported_error");
    }
    label_faults(&mut o, &src);
    Ok(o)
}

fn seekable<W: Wordy + From<u8> + dsi_bitstream::traits::Word + PartialEq + std::fmt::Debug, B: Read + Seek>(
    be: B,
    n: usize,
    data: &[u8],
    ops: &[u8],
    wname: &str,
    mut write: Option<WriteFn<W, B>>,
) -> CheckResult {
    let mut words: Vec<W> = crate::adapters::words_of::<W>(data);
    let mut ad = WordAdapter::<W, _>::new(be);
    let mut cur = 0usize;
    let mut o = Outcome::new();
    for (i, op) in ops.iter().enumerate() {
        match *op {
            0 => match ad.read_word() {
                Ok(w) => {
                    if cur >= words.len() || w != words[cur] {
                        fail!(format!("seek/{}/read", wname), "op #{}: read_word at word {} returned {:?}, expected {:?}", i, cur, w, words.get(cur));
                    }
                    cur += 1;
                }
                Err(_) => {
                    if cur < words.len() {
                        fail!(format!("seek/{}/read_err", wname), "op #{}: read_word at word {} of {} failed", i, cur, words.len());
                    }
                    return Ok(o);
                }
            },
            1 => match ad.word_pos() {
                Ok(p) if p == cur as u64 => {}
                o2 => fail!(format!("seek/{}/word_pos", wname), "op #{}: word_pos() = {:?}, {} words transferred", i, o2, cur),
            },
            k if k >= 128 => {
                // write_word through the same seekable stream (only for in-memory cursors that can write)
                let Some(wr) = write.as_mut() else { continue };
                let val = W::from(k);
                match wr(&mut ad, val) {
                    Ok(()) => {
                        if cur < words.len() {
                            words[cur] = val;
                        } else if cur == words.len() {
                            words.push(val);
                        } else {
                            continue;
                        }
                        cur += 1;
                        o.nt("write_then_pos");
                    }
                    Err(e) => fail!(format!("seek/{}/write", wname), "op #{}: write_word at word {} failed: {}", i, cur, e),
                }
            }
            k => {
                let k = (k as usize - 2) % (n + 1);
                if ad.set_word_pos(k as u64).is_err() {
                    fail!(format!("seek/{}/set_word_pos", wname), "op #{}: set_word_pos({}) failed on a {}-word stream", i, k, n);
                }
                cur = k;
                o.nt("seek");
            }
        }
    }
    Ok(o)
}

fn bit_write<W>(e: En, fields: &[(u64, u8)], schedule: &[Act], wname: &str) -> CheckResult
where
    W: Wordy + dsi_bitstream::traits::Word,
    u64: common_traits::CastableInto<W>,
{
    let mut model = BitVec::new();
    for &(v, n) in fields {
        model.push_field((v & crate::ops::mask64(n as usize)) as u128, n as usize, e);
    }
    model.pad_to(<W as Wordy>::BYTES * 8);
    let exp = model.to_bytes(e);
    let sink = Faulty::new(schedule, vec![]);
    let mut o = Outcome::new();
    let mut errored = false;
    let mut flush_lost = 0usize;
    macro_rules! go {
        ($E:ty) => {{
            // (ManuallyDrop: a panic while writing must not run the writer's flushing Drop on the armed sink)
            let mut bw = std::mem::ManuallyDrop::new(BufBitWriter::<$E, _>::new(WordAdapter::<W, _>::new(sink.clone())));
            for &(v, n) in fields {
                if bw.write_bits(v & crate::ops::mask64(n as usize), n as usize).is_err() {
                    errored = true;
                    break;
                }
            }
            if !errored && BitWrite::flush(&mut *bw).is_err() {
                errored = true;
            }
            if !errored && sink.0.borrow().unflushed != 0 {
                flush_lost = sink.0.borrow().unflushed;
            }
            let at_error = sink.0.borrow().bytes.clone();
            // no more faults while the writer is torn down (its Drop unwraps the flush result)
            sink.0.borrow_mut().armed = false;
            drop(std::mem::ManuallyDrop::into_inner(bw));
            at_error
        }};
    }
    let at_end = match e {
        En::BE => go!(BE),
        En::LE => go!(LE),
    };
    label_faults(&mut o, &sink);
    if flush_lost != 0 {
        fail!(format!("bit_write/{}/flush_not_propagated", wname), "flush() returned Ok but the byte sink's flush was not called after its last {} bytes (a buffering sink would still hold them)", flush_lost);
    }
    if errored {
        o.label("error_reported");
        // what reached the sink before the error must be whole-or-partial words of the image, in order
        if at_end.len() > exp.len() || at_end[..] != exp[..at_end.len()] {
            fail!(format!("bit_write/{}/err_state", wname), "an error was reported but the sink ({}) is not a prefix of the memory image ({})", crate::ops::hex(&at_end), crate::ops::hex(&exp));
        }
    } else if at_end != exp {
        fail!(
            format!("bit_write/{}/ok_but_bytes_differ", wname),
            "every call returned Ok but the sink holds {} bytes {} while the memory image is {} bytes {}; schedule {:?}",
            at_end.len(), crate::ops::hex(&at_end), exp.len(), crate::ops::hex(&exp), schedule
        );
    }
    Ok(o)
}

fn drop_fault<W>(e: En, fields: &[(u64, u8)], schedule: &[Act], wname: &str) -> CheckResult
where
    W: Wordy + dsi_bitstream::traits::Word,
    u64: common_traits::CastableInto<W>,
{
    let mut model = BitVec::new();
    for &(v, n) in fields {
        model.push_field((v & crate::ops::mask64(n as usize)) as u128, n as usize, e);
    }
    model.pad_to(<W as Wordy>::BYTES * 8);
    let exp = model.to_bytes(e);
    let sink = Faulty::new(schedule, vec![]);
    let mut o = Outcome::new();
    let mut write_err = false;
    let mut drop_panicked = false;
    let mut at_error: Option<Vec<u8>> = None;
    macro_rules! go {
        ($E:ty) => {{
            let mut bw = std::mem::ManuallyDrop::new(BufBitWriter::<$E, _>::new(WordAdapter::<W, _>::new(sink.clone())));
            for &(v, n) in fields {
                if bw.write_bits(v & crate::ops::mask64(n as usize), n as usize).is_err() {
                    write_err = true;
                    break;
                }
            }
            if write_err {
                // the history ended with a reported error (D8): what the writer still holds is unspecified, so the
                // sink is judged as it is now, and the writer is torn down without faults
                at_error = Some(sink.0.borrow().bytes.clone());
                sink.0.borrow_mut().armed = false;
            }
            let bw = std::mem::ManuallyDrop::into_inner(bw);
            drop_panicked = guarded(move || drop(bw)).is_err();
        }};
    }
    match e {
        En::BE => go!(BE),
        En::LE => go!(LE),
    }
    label_faults(&mut o, &sink);
    let got = at_error.unwrap_or_else(|| sink.0.borrow().bytes.clone());
    if write_err || drop_panicked {
        o.label("error_reported");
        if drop_panicked {
            o.nt("drop_reported_the_loss_by_panicking");
        }
        if got.len() > exp.len() || got[..] != exp[..got.len()] {
            fail!(format!("drop_fault/{}/err_state", wname), "an error was reported but the sink ({}) is not a prefix of the memory image ({})", crate::ops::hex(&got), crate::ops::hex(&exp));
        }
    } else if got != exp {
        fail!(
            format!("drop_fault/{}/silent_loss", wname),
            "every write returned Ok and dropping the writer returned normally, but the sink holds {} while the memory image is {}; schedule {:?}",
            crate::ops::hex(&got), crate::ops::hex(&exp), schedule
        );
    }
    Ok(o)
}

fn io_write<W>(e: En, pre: u8, slice: &[u8], schedule: &[Act], wname: &str) -> CheckResult
where
    W: Wordy + dsi_bitstream::traits::Word,
    u64: common_traits::CastableInto<W>,
{
    let mut model = BitVec::new();
    model.push_field(0x2AAA_AAAA_AAAA_AAAAu128 & crate::ops::mask64(pre as usize) as u128, pre as usize, e);
    for &b in slice {
        // byte j of the slice occupies the next 8 stream bits in stream order (C12): most significant bit first
        // on BE streams, least significant first on LE streams, i.e. an 8-bit field in both cases
        model.push_field(b as u128, 8, e);
    }
    model.pad_to(<W as Wordy>::BYTES * 8);
    let exp = model.to_bytes(e);
    let sink = Faulty::new(schedule, vec![]);
    let mut o = Outcome::new();
    let mut errored = false;
    macro_rules! go {
        ($E:ty) => {{
            let mut bw = std::mem::ManuallyDrop::new(BufBitWriter::<$E, _>::new(WordAdapter::<W, _>::new(sink.clone())));
            if bw.write_bits(0x2AAA_AAAA_AAAA_AAAAu64 & crate::ops::mask64(pre as usize), pre as usize).is_err() {
                errored = true;
            }
            if !errored && std::io::Write::write_all(&mut *bw, slice).is_err() {
                errored = true;
            }
            // odd prefixes end with io::Write::flush, even ones with BitWrite::flush
            if !errored {
                let fl = if pre % 2 == 1 { std::io::Write::flush(&mut *bw).is_err() } else { BitWrite::flush(&mut *bw).is_err() };
                if fl {
                    errored = true;
                }
            }
            let at_error = sink.0.borrow().bytes.clone();
            sink.0.borrow_mut().armed = false;
            drop(std::mem::ManuallyDrop::into_inner(bw));
            at_error
        }};
    }
    let at_end = match e {
        En::BE => go!(BE),
        En::LE => go!(LE),
    };
    label_faults(&mut o, &sink);
    if errored {
        o.label("error_reported");
        if at_end.len() > exp.len() || at_end[..] != exp[..at_end.len()] {
            fail!(format!("io_write/{}/err_state", wname), "an error was reported but the sink ({}) is not a prefix of the memory image ({})", crate::ops::hex(&at_end), crate::ops::hex(&exp));
        }
    } else if at_end != exp {
        fail!(
            format!("io_write/{}/ok_but_bytes_differ", wname),
            "write_all and flush returned Ok but the sink holds {} while the memory image is {}; schedule {:?}",
            crate::ops::hex(&at_end), crate::ops::hex(&exp), schedule
        );
    }
    Ok(o)
}

fn bit_read<W>(e: En, seed: u64, widths: &[u8], schedule: &[Act], wname: &str) -> CheckResult
where
    W: Wordy + dsi_bitstream::traits::Word + common_traits::DoubleType + common_traits::UpcastableInto<u64>,
    <W as common_traits::DoubleType>::DoubleType: common_traits::CastableInto<u64>,
{
    let total: usize = widths.iter().map(|&n| if n > 64 { n as usize - 64 } else { n as usize }).sum();
    let nbytes = (total.div_ceil(8) + 16).div_ceil(<W as Wordy>::BYTES) * <W as Wordy>::BYTES;
    let mut r = Rng::new(seed);
    let data: Vec<u8> = (0..nbytes).map(|_| r.next() as u8).collect();
    let model = BitVec::from_bytes(&data, e);
    let src = Faulty::new(schedule, data);
    let mut o = Outcome::new();
    macro_rules! go {
        ($E:ty) => {{
            let mut br = BufBitReader::<$E, _>::new(WordAdapter::<W, _>::new(src.clone()));
            let mut p = 0usize;
            for (i, &n) in widths.iter().enumerate() {
                if n > 64 {
                    // a skip: Ok means exactly that many bits were passed over (checked by the reads that follow)
                    match br.skip_bits(n as usize - 64) {
                        Ok(()) => {
                            p += n as usize - 64;
                            o.label("skip_ok");
                            continue;
                        }
                        Err(_) => {
                            o.label("error_reported");
                            break;
                        }
                    }
                }
                match br.read_bits(n as usize) {
                    Ok(v) => {
                        let exp = model.field(p, n as usize, e) as u64;
                        if v != exp {
                            label_faults(&mut o, &src);
                            fail!(format!("bit_read/{}/value", wname), "read_bits({}) #{} at bit {} returned {:#x}, expected {:#x}; schedule {:?}", n, i, p, v, exp, schedule);
                        }
                        p += n as usize;
                    }
                    Err(_) => {
                        o.label("error_reported");
                        break;
                    }
                }
            }
        }};
    }
    match e {
        En::BE => go!(BE),
        En::LE => go!(LE),
    }
    label_faults(&mut o, &src);
    Ok(o)
}

fn flush_retry<W>(e: En, bit: bool, fields: &[(u64, u8)], faults: u8, more: &[(u64, u8)], wname: &str) -> CheckResult
where
    W: Wordy + dsi_bitstream::traits::Word,
    u64: common_traits::CastableInto<W>,
{
    let wbits = <W as Wordy>::BYTES * 8;
    let mut o = Outcome::new();
    let sink = Faulty::new(&[], vec![]);
    sink.0.borrow_mut().flush_faults = faults;
    let mut model = BitVec::new();
    let push = |m: &mut BitVec, fs: &[(u64, u8)]| {
        for &(v, n) in fs {
            if bit {
                m.push_field((v & crate::ops::mask64(n as usize)) as u128, n as usize, e);
            } else {
                // word level: every field is one whole word (native byte order = LE image on this host)
                m.push_field((v as u128) & if wbits == 128 { u128::MAX } else { (1u128 << wbits) - 1 }, wbits, En::LE);
            }
        }
        m.pad_to(wbits);
    };
    push(&mut model, fields);
    let exp1 = model.to_bytes(if bit { e } else { En::LE });
    push(&mut model, more);
    let exp2 = model.to_bytes(if bit { e } else { En::LE });
    let mut verdict: Option<Failure> = None;
    macro_rules! retry_flush {
        ($flush:expr, $tag:expr) => {{
            let mut errs = 0u32;
            let mut done = false;
            for _ in 0..faults as u32 + 3 {
                match $flush {
                    Ok(_) => {
                        done = true;
                        break;
                    }
                    Err(_) => errs += 1,
                }
            }
            if !done {
                verdict = Some(Failure::new(format!("flush_retry/{}/{}/never_ok", $tag, wname), format!("flush kept failing {} times although the sink's flush failed only {} times with Interrupted", errs, faults)));
            } else if sink.0.borrow().unflushed != 0 {
                verdict = Some(Failure::new(
                    format!("flush_retry/{}/{}/ok_but_not_flushed", $tag, wname),
                    format!("after {} Interrupted flush failures the retried flush returned Ok without reaching the byte sink ({} bytes never flushed)", errs, sink.0.borrow().unflushed),
                ));
            } else if errs > 0 {
                o.nt("flush_retried_after_interrupted");
            }
        }};
    }
    macro_rules! go_bit {
        ($E:ty) => {{
            let mut bw = std::mem::ManuallyDrop::new(BufBitWriter::<$E, _>::new(WordAdapter::<W, _>::new(sink.clone())));
            for &(v, n) in fields {
                let _ = bw.write_bits(v & crate::ops::mask64(n as usize), n as usize);
            }
            retry_flush!(BitWrite::flush(&mut *bw), "bit");
            if verdict.is_none() && sink.0.borrow().bytes != exp1 {
                verdict = Some(Failure::new(
                    format!("flush_retry/bit/{}/bytes", wname),
                    format!("after the flush that returned Ok the sink holds {} but the memory image is {}", crate::ops::hex(&sink.0.borrow().bytes), crate::ops::hex(&exp1)),
                ));
            }
            if verdict.is_none() {
                for &(v, n) in more {
                    let _ = bw.write_bits(v & crate::ops::mask64(n as usize), n as usize);
                }
                let _ = BitWrite::flush(&mut *bw);
                if sink.0.borrow().bytes != exp2 {
                    verdict = Some(Failure::new(
                        format!("flush_retry/bit/{}/later_bytes", wname),
                        format!("fields written after the retried flush: the sink holds {} but the memory image is {}", crate::ops::hex(&sink.0.borrow().bytes), crate::ops::hex(&exp2)),
                    ));
                }
            }
            drop(std::mem::ManuallyDrop::into_inner(bw));
        }};
    }
    if bit {
        match e {
            En::BE => go_bit!(BE),
            En::LE => go_bit!(LE),
        }
    } else {
        let mut ad = WordAdapter::<W, _>::new(sink.clone());
        for &(v, _) in fields {
            let _ = ad.write_word(common_traits::CastableInto::<W>::cast(v));
        }
        retry_flush!(WordWrite::flush(&mut ad), "word");
        if verdict.is_none() && sink.0.borrow().bytes != exp1 {
            verdict = Some(Failure::new(format!("flush_retry/word/{}/bytes", wname), "after the flush that returned Ok the sink does not hold every word exactly once".to_string()));
        }
        if verdict.is_none() {
            for &(v, _) in more {
                let _ = ad.write_word(common_traits::CastableInto::<W>::cast(v));
            }
            let _ = WordWrite::flush(&mut ad);
            if sink.0.borrow().bytes != exp2 || sink.0.borrow().unflushed != 0 {
                verdict = Some(Failure::new(format!("flush_retry/word/{}/later_bytes", wname), "words written after the retried flush are missing, duplicated or never flushed".to_string()));
            }
        }
    }
    if let Some(f) = verdict {
        return Err(f);
    }
    Ok(o)
}

pub fn check_case(c: &Case, _env: &Env) -> CheckResult {
    match c {
        Case::DropFault { e, w, fields, schedule } => for_w!(*w, W => drop_fault::<W>(*e, fields, schedule, &format!("w{}", w.bits()))),
        Case::IoWrite { e, w, pre, slice, schedule } => for_w!(*w, W => io_write::<W>(*e, *pre, slice, schedule, &format!("w{}", w.bits()))),
        Case::FlushRetry { e, w, bit, fields, faults, more } => for_w!(*w, W => flush_retry::<W>(*e, *bit, fields, *faults, more, &format!("w{}", w.bits()))),
        Case::WriteWords { w, n_words, seed, schedule } => for_w!(*w, W => write_words::<W>(*n_words as usize, *seed, schedule, &format!("w{}", w.bits()))),
        Case::ReadWords { w, n_words, seed, schedule, reads } => for_w!(*w, W => read_words::<W>(*n_words as usize, *seed, schedule, *reads as usize, &format!("w{}", w.bits()))),
        Case::SeekAfterFault { w, n_words, seed, schedule, reads, k } => for_w!(*w, W => seek_after_fault::<W>(*n_words as usize, *seed, schedule, *reads as usize, *k as usize, &format!("w{}", w.bits()))),
        Case::Seekable { w, n_words, seed, ops, bufreader } => for_w!(*w, W => {
            let data = words_for::<W>(*n_words as usize, *seed);
            if *bufreader {
                seekable::<W, _>(std::io::BufReader::with_capacity(7, Cursor::new(data.clone())), *n_words as usize, &data, ops, &format!("w{}", w.bits()), None)
            } else {
                let wf: WriteFn<W, Cursor<Vec<u8>>> = |ad, v| ad.write_word(v).map_err(|e| e.to_string());
                seekable::<W, _>(Cursor::new(data.clone()), *n_words as usize, &data, ops, &format!("w{}", w.bits()), Some(wf))
            }
        }),
        Case::BitWrite { e, w, fields, schedule } => for_w!(*w, W => bit_write::<W>(*e, fields, schedule, &format!("w{}", w.bits()))),
        Case::BitRead { e, w, seed, widths, schedule } => match w {
            Wd::U8 => bit_read::<u8>(*e, *seed, widths, schedule, "w8"),
            Wd::U16 => bit_read::<u16>(*e, *seed, widths, schedule, "w16"),
            Wd::U32 => bit_read::<u32>(*e, *seed, widths, schedule, "w32"),
            _ => bit_read::<u64>(*e, *seed, widths, schedule, "w64"),
        },
    }
}

fn alphabet(wbytes: usize) -> Vec<Act> {
    let mut v: Vec<Act> = (0..=wbytes as u8).map(Act::Limit).collect();
    v.push(Act::Interrupted);
    v.push(Act::Fail);
    v
}

fn gen_schedule(s: &mut Src, wbytes: usize, allow_fail: bool) -> Vec<Act> {
    let n = s.below(10);
    (0..n)
        .map(|_| match s.weighted(&[6, 2, if allow_fail { 1 } else { 0 }]) {
            0 => Act::Limit(s.below(wbytes + 1) as u8),
            1 => Act::Interrupted,
            _ => Act::Fail,
        })
        .collect()
}

fn run(ctx: &Ctx, env: &Env) -> Stats {
    let mut jobs: Vec<Job> = vec![];
    for w in [Wd::U8, Wd::U16, Wd::U32] {
        jobs.push(Box::new(move |ctx: &Ctx| {
            let mut part = Part::new(ctx, format!("exhaustive/w{}", w.bits()), "every schedule of up to 4 actions over {limit 0..=W, Interrupted, hard error}, write side and read side, 2 words", true);
            let f = |c: &Case| check_case(c, env);
            let al = alphabet(w.bytes());
            let k = al.len();
            for len in 0..=4usize {
                let total = k.pow(len as u32);
                for code in 0..total {
                    let mut x = code;
                    let schedule: Vec<Act> = (0..len)
                        .map(|_| {
                            let a = al[x % k];
                            x /= k;
                            a
                        })
                        .collect();
                    part.check(&Case::WriteWords { w, n_words: 2, seed: 7 + ctx.seed, schedule: schedule.clone() }, &f);
                    part.check(&Case::ReadWords { w, n_words: 2, seed: 7 + ctx.seed, schedule: schedule.clone(), reads: 3 }, &f);
                    if len <= 3 {
                        for k in 0..=3u8 {
                            part.check(&Case::SeekAfterFault { w, n_words: 3, seed: 9 + ctx.seed, schedule: schedule.clone(), reads: 3, k }, &f);
                        }
                    }
                }
            }
            part.finish()
        }));
    }
    jobs.push(Box::new(move |ctx: &Ctx| {
        let mut part = Part::new(ctx, "seekable", "all op sequences of length <= 5 over {read, write, pos, seek 0..=3} on 3-word Cursor / BufReader streams, every word size", true);
        let f = |c: &Case| check_case(c, env);
        for w in Wd::WRITER {
            for bufreader in [false, true] {
                for len in 0..=5usize {
                    for code in 0..7usize.pow(len as u32) {
                        let mut x = code;
                        let ops: Vec<u8> = (0..len)
                            .map(|_| {
                                let a = (x % 7) as u8;
                                x /= 7;
                                if a == 6 {
                                    0xA7
                                } else {
                                    a
                                }
                            })
                            .collect();
                        part.check(&Case::Seekable { w, n_words: 3, seed: 3, ops, bufreader }, &f);
                    }
                }
            }
        }
        part.finish()
    }));
    jobs.push(Box::new(move |ctx: &Ctx| {
        let mut part = Part::new(ctx, "flush_retry", "sink flush fails 0..=6 times with Interrupted, the caller retries: every word size, both endiannesses, word level and bit level, pending bits 0..=W+1", true);
        let f = |c: &Case| check_case(c, env);
        for w in Wd::WRITER {
            for faults in 0..=6u8 {
                for e in En::ALL {
                    for pending in 0..=(w.bits().min(64) + 1) {
                        let mut fields = vec![(0x5A5A_A5A5_1234_5678u64, (pending.min(64)) as u8)];
                        if pending > 64 {
                            fields.push((1, (pending - 64) as u8));
                        }
                        part.check(&Case::FlushRetry { e, w, bit: true, fields, faults, more: vec![(0x2B, 6), (0x1FFFF, 17)] }, &f);
                    }
                }
                for n in 0..=2usize {
                    let fields: Vec<(u64, u8)> = (0..n).map(|i| (0x0123_4567_89AB_CDEFu64.rotate_left(i as u32 * 8), 0)).collect();
                    part.check(&Case::FlushRetry { e: En::LE, w, bit: false, fields, faults, more: vec![(0xFEDC_BA98_7654_3210, 0)] }, &f);
                }
            }
        }
        part.finish()
    }));
    jobs.push(Box::new(move |ctx: &Ctx| {
        let mut part = Part::new(ctx, "drop_faults", "a bit writer dropped without flush over a sink with one fault at every call index, pending bits 0..=W", true);
        let f = |c: &Case| check_case(c, env);
        for w in Wd::WRITER {
            for e in En::ALL {
                for words in 0..=2usize {
                    for pending in [0usize, 1, 3, w.bits() / 2, w.bits() - 1] {
                        let mut fields: Vec<(u64, u8)> = vec![];
                        let mut left = words * w.bits() + pending;
                        while left > 0 {
                            let k = left.min(61);
                            fields.push((0x9E37_79B9_7F4A_7C15u64.rotate_left(left as u32), k as u8));
                            left -= k;
                        }
                        for at in 0..4usize {
                            for act in [Act::Fail, Act::Interrupted, Act::Limit(1), Act::Limit(0)] {
                                let mut schedule = vec![Act::Limit(255); at];
                                schedule.push(act);
                                part.check(&Case::DropFault { e, w, fields: fields.clone(), schedule }, &f);
                            }
                        }
                    }
                }
            }
        }
        part.finish()
    }));
    jobs.push(Box::new(move |ctx: &Ctx| {
        let mut part = Part::new(ctx, "io_write_faults", "io::Write::write_all of 0..=20 bytes through a bit writer over the adapter, one fault at every sink call index", true);
        let f = |c: &Case| check_case(c, env);
        for w in Wd::WRITER {
            for e in En::ALL {
                for len in [0usize, 1, 3, 8, 9, 16, 20] {
                    for pre in [0u8, 3, 8] {
                        for at in 0..6usize {
                            for act in [Act::Fail, Act::Interrupted, Act::Limit(1), Act::Limit(0)] {
                                let mut schedule = vec![Act::Limit(255); at];
                                schedule.push(act);
                                let slice: Vec<u8> = (0..len).map(|i| (i as u8).wrapping_mul(37).wrapping_add(0x81)).collect();
                                part.check(&Case::IoWrite { e, w, pre, slice, schedule }, &f);
                            }
                        }
                    }
                }
            }
        }
        part.finish()
    }));
    jobs.push(Box::new(move |ctx: &Ctx| {
        let mut part = Part::new(ctx, "bit_skip_faults", "reads and skips (within the buffer, across one word, across several words) with one fault at every backend call index", true);
        let f = |c: &Case| check_case(c, env);
        for w in Wd::READER {
            for e in En::ALL {
                for at in 0..10usize {
                    for act in [Act::Fail, Act::Interrupted, Act::Limit(1), Act::Limit(0)] {
                        let mut schedule = vec![Act::Limit(255); at];
                        schedule.push(act);
                        for widths in [vec![5u8, 64 + 40, 7, 64 + 100, 11, 64 + 3, 13, 64 + 191, 9], vec![64 + 70, 3, 64 + 130, 64 + 64, 17]] {
                            part.check(&Case::BitRead { e, w, seed: 11 + ctx.seed, widths, schedule: schedule.clone() }, &f);
                        }
                    }
                }
            }
        }
        part.finish()
    }));
    let n_rand = ctx.t(100_000u64, 8_000_000);
    for j in 0..8 {
        jobs.push(Box::new(move |ctx: &Ctx| {
            let mut part = Part::new(ctx, format!("random/{}", j), "proptest byte strings decoded into word-level and bit-level cases with fault schedules", false);
            part.random(n_rand, 200, &|s: &mut Src| gen_case(s), &|c: &Case| check_case(c, env));
            part.finish()
        }));
    }
    jobs.push(Box::new(move |ctx: &Ctx| {
        let mut part = Part::new(ctx, "far_words", "set_word_pos / word_pos / read_word at byte offsets up to the top of the u64 range over a synthetic seekable source", true);
        for w in Wd::WRITER {
            let by = w.bytes() as u64;
            for k in [3u64, (1 << 32) + 1, (1 << 57) + 5, (1u64 << 61) / by + 7, (1u64 << 62) / by + 1, (1u64 << 63) / by + 9, u64::MAX / by - 3] {
                part.check(&FarWords { w, k }, &|c: &FarWords| check_far_words(c));
            }
        }
        part.finish()
    }));
    run_jobs(ctx, jobs)
}

pub fn gen_case(s: &mut Src) -> Case {
    let w = s.pick(&Wd::WRITER);
    match s.below(9) {
        8 => {
            let k = s.range(1, 12);
            let fields = (0..k).map(|_| (s.u64(), crate::gen::gen_width(s, w.bits()))).collect();
            Case::DropFault { e: crate::gen::gen_en(s), w, fields, schedule: gen_schedule(s, w.bytes(), true) }
        }
        7 => {
            let n = s.below(40);
            Case::IoWrite { e: crate::gen::gen_en(s), w, pre: s.below(65) as u8, slice: (0..n).map(|_| s.u8()).collect(), schedule: gen_schedule(s, w.bytes(), true) }
        }
        6 => {
            let bit = s.bool();
            let k = s.below(6);
            let fields = (0..k).map(|_| (s.u64(), if bit { crate::gen::gen_width(s, w.bits()) } else { 0 })).collect();
            let k2 = s.below(4);
            let more = (0..k2).map(|_| (s.u64(), if bit { crate::gen::gen_width(s, w.bits()) } else { 0 })).collect();
            Case::FlushRetry { e: crate::gen::gen_en(s), w, bit, fields, faults: s.below(8) as u8, more }
        }
        5 => Case::SeekAfterFault { w, n_words: s.range(1, 6) as u8, seed: s.u16() as u64, schedule: gen_schedule(s, w.bytes(), true), reads: s.range(1, 7) as u8, k: s.below(7) as u8 },
        0 => Case::WriteWords { w, n_words: s.range(1, 6) as u8, seed: s.u16() as u64, schedule: gen_schedule(s, w.bytes(), true) },
        1 => Case::ReadWords { w, n_words: s.range(0, 6) as u8, seed: s.u16() as u64, schedule: gen_schedule(s, w.bytes(), true), reads: s.range(1, 8) as u8 },
        2 => {
            let n = s.range(1, 6);
            let k = s.range(1, 12);
            Case::Seekable { w, n_words: n as u8, seed: s.u16() as u64, ops: (0..k).map(|_| if s.below(5) == 0 { 0x80 | s.u8() } else { s.below(n + 3) as u8 }).collect(), bufreader: s.bool() }
        }
        3 => {
            let k = s.range(1, 12);
            let fields = (0..k)
                .map(|_| {
                    let n = crate::gen::gen_width(s, w.bits());
                    (s.u64(), n)
                })
                .collect();
            Case::BitWrite { e: crate::gen::gen_en(s), w, fields, schedule: gen_schedule(s, w.bytes(), true) }
        }
        _ => {
            let w = s.pick(&Wd::READER);
            let k = s.range(1, 12);
            Case::BitRead { e: crate::gen::gen_en(s), w, seed: s.u16() as u64, widths: (0..k).map(|_| if s.below(4) == 0 { 65 + s.below(191) as u8 } else { crate::gen::gen_width(s, w.bits()) }).collect(), schedule: gen_schedule(s, w.bytes(), true) }
        }
    }
}

/// Word positions at the far end of the 64-bit byte-offset range, over a synthetic seekable byte source whose
/// byte at offset o is a fixed function of o.
#[derive(Clone, Copy, PartialEq, Eq, Hash, Debug, Serialize, Deserialize)]
pub struct FarWords {
    pub w: Wd,
    pub k: u64,
}

fn fn_byte(o: u64) -> u8 {
    let mut z = (o / 8).wrapping_add(0x9E37_79B9_7F4A_7C15).wrapping_mul(0xBF58_476D_1CE4_E5B9);
    z ^= z >> 31;
    (z.wrapping_mul(0x94D0_49BB_1331_11EB) >> (8 * (o % 8))) as u8
}

struct FnBytes {
    pos: u64,
}
impl Read for FnBytes {
    fn read(&mut self, buf: &mut [u8]) -> std::io::Result<usize> {
        for b in buf.iter_mut() {
            *b = fn_byte(self.pos);
            self.pos = self.pos.wrapping_add(1);
        }
        Ok(buf.len())
    }
}
impl Seek for FnBytes {
    fn seek(&mut self, p: std::io::SeekFrom) -> std::io::Result<u64> {
        self.pos = match p {
            std::io::SeekFrom::Start(x) => x,
            std::io::SeekFrom::Current(d) => self.pos.wrapping_add(d as u64),
            std::io::SeekFrom::End(d) => u64::MAX.wrapping_add(d as u64),
        };
        Ok(self.pos)
    }
}

fn far_words<W: Wordy + dsi_bitstream::traits::Word + PartialEq + std::fmt::Debug>(c: &FarWords) -> CheckResult {
    let mut o = Outcome::new();
    let by = <W as Wordy>::BYTES as u64;
    let mut ad = WordAdapter::<W, _>::new(FnBytes { pos: 0 });
    if ad.set_word_pos(c.k).is_err() {
        fail!("far_words/set_word_pos", "{:?}: set_word_pos failed", c);
    }
    match ad.word_pos() {
        Ok(p) if p == c.k => {}
        other => fail!("far_words/word_pos", "{:?}: word_pos() after set_word_pos({}) = {:?}", c, c.k, other.map_err(|e| e.to_string())),
    }
    let bytes: Vec<u8> = (0..by).map(|j| fn_byte(c.k * by + j)).collect();
    let exp: W = crate::adapters::words_of::<W>(&bytes)[0];
    match ad.read_word() {
        Ok(w) if w == exp => {}
        other => fail!("far_words/read_word", "{:?}: read_word at word {} returned {:?}, the source holds {:?}", c, c.k, other.map_err(|e| e.to_string()), exp),
    }
    match ad.word_pos() {
        Ok(p) if p == c.k + 1 => {}
        other => fail!("far_words/word_pos_after_read", "{:?}: word_pos() after the read = {:?}", c, other.map_err(|e| e.to_string())),
    }
    o.nt("byte_offset_beyond_2^57");
    Ok(o)
}

pub fn check_far_words(c: &FarWords) -> CheckResult {
    for_w!(c.w, W => far_words::<W>(c))
}

fn replay(v: &serde_json::Value, env: &Env) -> CheckResult {
    if v.get("k").is_some() && v.get("w").is_some() && v.as_object().map(|m| m.len()) == Some(2) {
        let c: FarWords = serde_json::from_value(v.clone()).map_err(|e| Failure::new("replay/parse", e.to_string()))?;
        return run_guarded(&c, &|c: &FarWords| check_far_words(c));
    }
    let c: Case = serde_json::from_value(v.clone()).map_err(|e| Failure::new("replay/parse", e.to_string()))?;
    run_guarded(&c, &|c: &Case| check_case(c, env))
}
