//! C02 — bit readers return exactly the stream's bits for every operation history.

use crate::calls::*;
use crate::ops::*;
use crate::streams::*;
use crate::{Env, PropDef};
use vcore::engine::*;
use vcore::{fail, En};

pub type Case = RCase;

pub const DEF: PropDef = PropDef {
    id: "C02",
    rule: "Cases are (reader configuration, byte image, history). Small-scope part, enumerated completely: every reachable buffer state of the \
buffered reader (bits_in_buffer = 0..2W-1, built by a read, an optional look-ahead refill via peek(W) and a second read) resp. every bit offset \
0..63 of the unbuffered reader x every next operation (read_bits n=0..=64, read_unary with the next one at every distance 0..=3W, skip_bits \
0..=2W+2 and larger, peek_bits 1..=W (<=32 unbuffered), clone-and-diverge) x sentinel reads, on several data patterns, endiannesses and backends; on backends with a real end additionally with \
the data ending in the very word in which the operation ends. \
Random part: proptest byte strings decoded into (configuration, pattern image, history of reads/unaries/skips/peeks/clones), shrunk on failure. \
Huge part: unary codes of 2^32-1, 2^32, 2^32+1 and 2^32+69 zeros read from a synthetic backend (value and position). \
Oracle: the bit model from the model position: value of every read and peek (peek repeated), exact advance, clone independence, zeros beyond the \
end of zero-extending backends, Err (never a value) when a strict backend runs out. Non-trivial: an operation refilled a non-empty buffer, or \
spanned more than one word, or read 64 bits from an empty buffer, or ran with more than one word buffered, or a unary crossed a word, or the \
unbuffered reader needed two words; distinct = distinct (configuration, image, history) hashes.",
    assumptions: &[
        "bit model (vcore::bits)",
        "D2: peek widths 1..=W (buffered) / 1..=32 (unbuffered); D3: no unary read on a zero-extended tail without a one bit; D8: a history ends at the first Err",
    ],
    run,
    replay,
    from_bytes: Some(from_bytes),
};

/// A unary code longer than 2^32 bits read from a synthetic zero-extended backend (all zero words except the one
/// holding the terminating one bit): `pre` bits are read first, then read_unary() must return x and leave the
/// reader at pre + x + 1.
#[derive(Clone, Copy, PartialEq, Eq, Hash, Debug, serde::Serialize, serde::Deserialize)]
pub struct HugeUnary {
    pub e: En,
    pub r64: bool,
    pub pre: u8,
    pub x: u64,
}

struct Synth<W> {
    pos: u64,
    one_word: u64,
    word: W,
}
macro_rules! impl_synth {
    ($W:ty) => {
        impl dsi_bitstream::traits::WordRead for Synth<$W> {
            type Error = std::convert::Infallible;
            type Word = $W;
            fn read_word(&mut self) -> Result<$W, Self::Error> {
                let w = if self.pos == self.one_word { self.word } else { 0 };
                self.pos += 1;
                Ok(w)
            }
        }
        impl dsi_bitstream::traits::WordSeek for Synth<$W> {
            type Error = std::convert::Infallible;
            fn word_pos(&mut self) -> Result<u64, Self::Error> {
                Ok(self.pos)
            }
            fn set_word_pos(&mut self, p: u64) -> Result<(), Self::Error> {
                self.pos = p;
                Ok(())
            }
        }
    };
}
impl_synth!(u64);
impl_synth!(u32);

pub fn check_huge_unary(h: &HugeUnary) -> CheckResult {
    use dsi_bitstream::prelude::*;
    let mut o = Outcome::new();
    let p = h.pre as u64 + h.x; // stream position of the terminating one
    macro_rules! go {
        ($E:ty, $W:ty, $be:expr) => {{
            let wb = <$W>::BITS as u64;
            let idx = (p % wb) as u32;
            // value of the word in stream order, then as the backend stores it (the reader converts with to_be / to_le)
            let word: $W = if $be { ((1 as $W) << (wb as u32 - 1 - idx)).to_be() } else { ((1 as $W) << idx).to_le() };
            let mut rd = BufBitReader::<$E, _>::new(Synth::<$W> { pos: 0, one_word: p / wb, word });
            match rd.read_bits(h.pre as usize) {
                Ok(0) => {}
                other => fail!("huge_unary/prefix", "{:?}: the {} zero bits before the code read as {:?}", h, h.pre, other.map_err(|e| e.to_string())),
            }
            match rd.read_unary() {
                Ok(v) if v == h.x => {}
                other => fail!("huge_unary/value", "{:?}: read_unary returned {:?}", h, other.map_err(|e| e.to_string())),
            }
            match rd.bit_pos() {
                Ok(q) if q == p + 1 => {}
                other => fail!("huge_unary/position", "{:?}: the reader is at {:?} after the code, expected {}", h, other.map_err(|e| e.to_string()), p + 1),
            }
        }};
    }
    match (h.e, h.r64) {
        (En::BE, true) => go!(BE, u64, true),
        (En::BE, false) => go!(BE, u32, true),
        (En::LE, true) => go!(LE, u64, false),
        (En::LE, false) => go!(LE, u32, false),
    }
    o.nt("unary_longer_than_2^32");
    Ok(o)
}

pub fn check_case(c: &Case, env: &Env) -> CheckResult {
    let (n, _b) = check_rcase(c, env)?;
    let mut o = Outcome::new();
    if n.nonempty_refill {
        o.nt("refill_with_nonempty_buffer");
    }
    if n.multiword_read {
        o.nt("read_wider_than_word");
    }
    if n.n64_empty {
        o.nt("n64_from_empty_buffer");
    }
    if n.multiword_buffered {
        o.nt("more_than_one_word_buffered");
    }
    if n.long_unary {
        o.nt("unary_crosses_word");
    }
    if n.double_word_unbuf {
        o.nt("unbuffered_two_word_access");
    }
    if n.forked {
        o.label("clone");
    }
    if n.beyond_end_zero {
        o.label("zeros_beyond_end");
    }
    if n.hit_end_error {
        o.label("strict_end_error");
    }
    if n.skipped_domain > 0 {
        o.label("some_ops_outside_domain_skipped");
    }
    Ok(o)
}

/// Operations that put the reader in buffer state `s` (bits_in_buffer = s), and the number of
/// bits they consume.
pub fn state_prefix(r: RKind, s: usize) -> (Vec<ROp>, usize) {
    match r {
        RKind::Unbuf => {
            // state = bit offset within the word
            if s == 0 {
                (vec![], 0)
            } else {
                (vec![ROp::Bits(s as u8)], s)
            }
        }
        RKind::Buf(wd) => {
            let w = wd.bits();
            let low = s % w;
            let mut ops = vec![];
            let mut used = 0;
            if s == 0 {
                return (ops, 0);
            }
            // a read of w - low bits leaves `low` bits buffered (a read of w leaves 0)
            let a = w - low;
            ops.push(ROp::Bits(a as u8));
            used += a;
            if s >= w {
                ops.push(ROp::Peek(w as u8)); // look-ahead refill: low + w bits buffered
            }
            (ops, used)
        }
    }
}

pub fn n_states(r: RKind) -> usize {
    match r {
        RKind::Unbuf => 64,
        RKind::Buf(wd) => 2 * wd.bits(),
    }
}

pub fn next_menu(r: RKind) -> Vec<ROp> {
    let w = r.word().bits();
    let mut v = vec![];
    for n in 0..=64u8 {
        v.push(ROp::Bits(n));
    }
    for n in 0..=(2 * w + 2) {
        v.push(ROp::Skip(n as u32));
    }
    v.push(ROp::Skip(3 * w as u32));
    v.push(ROp::Skip(3 * w as u32 + 5));
    for n in 1..=r.peek_max() {
        v.push(ROp::Peek(n as u8));
    }
    v.push(ROp::Fork(vec![ROp::Bits(5), ROp::Unary, ROp::Bits(64)]));
    v
}

fn run(ctx: &Ctx, env: &Env) -> Stats {
    let mut jobs: Vec<Job> = vec![];
    let backends: Vec<RBackend> = if ctx.quick() {
        vec![RBackend::InfBorrowed, RBackend::Strict, RBackend::AdapterCursor, RBackend::VecReadback]
    } else {
        RBackend::ALL.to_vec()
    };
    let pats: Vec<(Pat, u64)> = if ctx.quick() {
        vec![(Pat::Random, 11 + ctx.seed), (Pat::Ones, 0)]
    } else {
        vec![(Pat::Random, 11 + ctx.seed), (Pat::Random, 977 + ctx.seed), (Pat::Ones, 0), (Pat::Alternating, 0), (Pat::Sparse, 13)]
    };
    for e in En::ALL {
        for r in RKind::ALL {
            for &backend in &backends {
                let pats = pats.clone();
                jobs.push(Box::new(move |ctx: &Ctx| {
                    let cfg = RCfg::new(e, r, backend);
                    let w = r.word().bits();
                    let mut part = Part::new(ctx, format!("small/{}", cfg.name()), "every buffer state x every next operation x sentinel, per data pattern", true);
                    let f = |c: &Case| check_case(c, env);
                    let bits = (8 * w + 320) as u32;
                    let sentinel = [ROp::Bits(64), ROp::Peek(1), ROp::Bits(7)];
                    for s in 0..n_states(r) {
                        let (pre, used) = state_prefix(r, s);
                        for &(pat, seed) in &pats {
                            for nx in next_menu(r) {
                                let mut ops = pre.clone();
                                ops.push(nx);
                                ops.extend_from_slice(&sentinel);
                                part.check(&RCase { cfg, img: Img::Pattern { pat, bits, seed, zero_from: None, one_at: None }, cut_words: None, ops, free: false }, &f);
                            }
                        }
                        // on backends with a real end: the data stops right after the word in which the operation
                        // ends, so an operation that needs no bit beyond it must not fetch another word
                        if !backend.zero_ext() {
                            let (pat, seed) = pats[0];
                            for n in 0..=(2 * w + 2) {
                                for kind in 0..2 {
                                    if kind == 0 && n > 64 {
                                        continue;
                                    }
                                    let nx = if kind == 0 { ROp::Bits(n as u8) } else { ROp::Skip(n as u32) };
                                    let words = (used + n).div_ceil(w).max(used.div_ceil(w));
                                    // a look-ahead refill in the prefix needs its own word
                                    let words = if pre.iter().any(|o| matches!(o, ROp::Peek(_))) { words.max((used + w).div_ceil(w).max(1)) } else { words };
                                    let mut ops = pre.clone();
                                    ops.push(nx);
                                    ops.push(ROp::Pos);
                                    part.check(&RCase { cfg, img: Img::Pattern { pat, bits, seed, zero_from: None, one_at: None }, cut_words: Some(words as u32), ops, free: false }, &f);
                                }
                            }
                        }
                        // unary with the next one at every distance
                        for d in 0..=(3 * w) {
                            let mut ops = pre.clone();
                            ops.push(ROp::Unary);
                            ops.extend_from_slice(&sentinel);
                            let img = Img::Pattern { pat: Pat::Random, bits, seed: 5 + ctx.seed, zero_from: Some(used as u32), one_at: Some((used + d) as u32) };
                            part.check(&RCase { cfg, img, cut_words: None, ops, free: false }, &f);
                        }
                    }
                    part.finish()
                }));
            }
        }
    }
    // random histories
    let n_rand = ctx.t(40_000u64, 4_000_000);
    let max_ops = ctx.t(30usize, 150);
    for j in 0..16 {
        jobs.push(Box::new(move |ctx: &Ctx| {
            let mut part = Part::new(ctx, format!("random/hist/{}", j), "proptest byte strings decoded into (configuration, image, history)", false);
            part.random(n_rand, max_ops * 6 + 24, &|s: &mut Src| gen_case(s, max_ops), &|c: &Case| check_case(c, env));
            part.finish()
        }));
    }
    jobs.push(Box::new(move |ctx: &Ctx| {
        let mut part = Part::new(ctx, "huge_unary", "unary codes longer than 2^32 bits read from a synthetic zero-extended backend", true);
        for e in En::ALL {
            for (r64, pre, x) in [(true, 3u8, (1u64 << 32) + 69), (true, 0, 1 << 32), (true, 61, (1 << 32) - 1), (false, 5, (1 << 32) + 1)] {
                if ctx.quick() && !r64 && e == En::BE {
                    continue;
                }
                part.check(&HugeUnary { e, r64, pre, x }, &|h: &HugeUnary| check_huge_unary(h));
            }
        }
        part.finish()
    }));
    run_jobs(ctx, jobs)
}

pub fn gen_case(s: &mut Src, max_ops: usize) -> Case {
    let cfg = gen_rcfg(s, &RBackend::ALL);
    let w = cfg.r.word().bits();
    let pat = gen_pat(s);
    let bits = (s.range(1, 40) * w.max(16)) as u32;
    let seed = s.u16() as u64;
    let n = s.range(1, max_ops);
    let ops = (0..n).map(|_| gen_rop_prim(s, cfg.r, 0)).collect();
    RCase { cfg, img: Img::Pattern { pat, bits, seed, zero_from: None, one_at: None }, cut_words: None, ops, free: false }
}

fn replay(v: &serde_json::Value, env: &Env) -> CheckResult {
    if v.get("x").is_some() && v.get("r64").is_some() {
        let h: HugeUnary = serde_json::from_value(v.clone()).map_err(|e| Failure::new("replay/parse", e.to_string()))?;
        return run_guarded(&h, &|h: &HugeUnary| check_huge_unary(h));
    }
    let c: Case = serde_json::from_value(v.clone()).map_err(|e| Failure::new("replay/parse", e.to_string()))?;
    run_guarded(&c, &|c: &Case| check_case(c, env))
}

fn from_bytes(data: &[u8], env: &Env) -> (serde_json::Value, CheckResult) {
    let c = gen_case(&mut Src::new(data), 60);
    let r = run_guarded(&c, &|c| check_case(c, env));
    (serde_json::to_value(&c).unwrap_or(serde_json::Value::Null), r)
}
