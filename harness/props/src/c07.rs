//! C07 — reported bit positions and seeks are exact for every history.

use crate::c02::{n_states, state_prefix};
use crate::calls::*;
#[allow(unused_imports)]
use crate::gen::*;
use crate::ops::*;
use crate::streams::*;
use crate::{Env, PropDef};
use vcore::engine::*;
use vcore::En;

pub type Case = RCase;

pub const DEF: PropDef = PropDef {
    id: "C07",
    rule: "Cases are (reader configuration, image built from reference-encoded items, history) where every operation is followed by a bit_pos() \
query. Small-scope part, enumerated completely: every buffer state x set_bit_pos(p) for every p in 0..=4W x a menu of next operations \
(reads of 0,1,7,W-1,W,W+1,64 bits, unary, peeks, skip, code reads with and without tables). Random part: proptest byte strings decoded into item \
streams and histories that interleave item reads (random table options), seeks to item starts and to arbitrary positions (word multiples +-1 \
included), primitive reads, peeks, skips, io::Read byte reads and clones. Oracle: bit_pos() == model position after every step, every value == \
bit model / reference decoder from the model position; metamorphic twin: the suffix after the last seek(p) is re-run on a fresh reader after \
skip_bits(p) and must satisfy the same model. Backends: zero-extended, strict, vector/slice writer read back, Cursor and BufReader via the byte \
adapter. Non-trivial: a seek to a non-word-aligned position followed by a refill, or a position query with more than one word buffered, or a \
backward seek after a table read; distinct = distinct case hashes.",
    assumptions: &[
        "bit model and reference decoders",
        "seek targets lie within 0..=stream length; D4: code reads only at constructed codeword starts; D7: table options only on readers without diagnostic",
    ],
    run,
    replay,
    from_bytes: Some(from_bytes),
};

pub fn with_pos(ops: Vec<ROp>) -> Vec<ROp> {
    let mut v = Vec::with_capacity(ops.len() * 2 + 1);
    v.push(ROp::Pos);
    for o in ops {
        let o = match o {
            ROp::Fork(sub) => ROp::Fork(with_pos(sub)),
            o => o,
        };
        v.push(o);
        v.push(ROp::Pos);
    }
    v
}

pub fn check_case(c: &Case, env: &Env) -> CheckResult {
    let (n, _b) = check_rcase(c, env)?;
    // metamorphic twin: fresh reader + skip_bits(p) runs the suffix after the last seek
    if let Some(i) = c.ops.iter().rposition(|o| matches!(o, ROp::Seek(_))) {
        if let ROp::Seek(q) = c.ops[i] {
            let mut ops2 = vec![];
            let mut left = q;
            while left > 0 {
                let s = left.min(1 << 20);
                ops2.push(ROp::Skip(s as u32));
                left -= s;
            }
            ops2.extend_from_slice(&c.ops[i + 1..]);
            let twin = RCase { cfg: c.cfg, img: c.img.clone(), cut_words: c.cut_words, ops: ops2, free: false };
            if let Err(mut f) = check_rcase(&twin, env) {
                f.sig = format!("twin/{}", f.sig);
                return Err(f);
            }
        }
    }
    let mut o = Outcome::new();
    if n.seek_unaligned && n.nonempty_refill {
        o.nt("unaligned_seek_then_refill");
    }
    if n.pos_while_multiword {
        o.nt("pos_with_more_than_one_word_buffered");
    }
    if n.seek_back_after_table {
        o.nt("backward_seek_after_table_read");
    }
    if n.seek_unaligned {
        o.label("unaligned_seek");
    }
    if n.table_used {
        o.label("table_read");
    }
    if n.forked {
        o.label("clone");
    }
    if n.hit_end_error {
        o.label("strict_end_error");
    }
    Ok(o)
}

fn fixed_items() -> Vec<Item> {
    use vcore::Code::*;
    // a stream whose codewords are short enough for every table and varied in length
    let mut v = vec![];
    for (i, code) in [Gamma, Delta, Zeta(3), Omega, Gamma, Zeta(3), Delta, Pi(2), Gamma, Rice(2), Delta, Zeta(3), ExpGolomb(1), Gamma, Golomb(5), VByteBe]
        .iter()
        .cycle()
        .take(80)
        .enumerate()
    {
        let val = [0u64, 1, 2, 5, 9, 17, 30, 63, 100, 3, 7, 200, 1000, 12, 4, 65][i % 16] + (i as u64 / 16);
        v.push(Item::Coded { code: *code, v: val });
    }
    v
}

fn run(ctx: &Ctx, env: &Env) -> Stats {
    let mut jobs: Vec<Job> = vec![];
    let backends: Vec<RBackend> = if ctx.quick() {
        vec![RBackend::InfBorrowed, RBackend::Strict, RBackend::AdapterCursor, RBackend::AdapterBufReader]
    } else {
        RBackend::ALL.to_vec()
    };
    for e in En::ALL {
        for r in RKind::ALL {
            for &backend in &backends {
                jobs.push(Box::new(move |ctx: &Ctx| {
                    let cfg = RCfg::new(e, r, backend);
                    let w = r.word().bits();
                    let mut part = Part::new(ctx, format!("small/{}", cfg.name()), "every buffer state x every seek target 0..=4W x next-operation menu, bit_pos after every step", true);
                    let f = |c: &Case| check_case(c, env);
                    let items = fixed_items();
                    let img = Img::Items { items: items.clone(), tail: Pat::Random, tail_bits: (6 * w + 200) as u32, seed: 3 + ctx.seed };
                    let built = img.build(e, w, None);
                    let mut menu: Vec<ROp> = vec![];
                    for n in [0usize, 1, 7, w - 1, w, (w + 1).min(64), 64] {
                        menu.push(ROp::Bits(n as u8));
                    }
                    menu.push(ROp::Unary);
                    menu.push(ROp::Peek(1));
                    menu.push(ROp::Peek(r.peek_max() as u8));
                    menu.push(ROp::Skip(w as u32 + 3));
                    menu.push(ROp::IoRead(3));
                    let step = if ctx.quick() && w >= 64 { 2 } else { 1 };
                    for s in (0..n_states(r)).step_by(step) {
                        let (pre, _) = state_prefix(r, s);
                        for p in 0..=(4 * w) {
                            // primitive menu
                            for nx in &menu {
                                let mut ops = pre.clone();
                                ops.push(ROp::Seek(p as u64));
                                ops.push(nx.clone());
                                ops.push(ROp::Bits(64));
                                part.check(&RCase { cfg, img: img.clone(), cut_words: None, ops: with_pos(ops), free: false }, &f);
                            }
                        }
                        // seek to every item start in range and read that item with every table option
                        for (&st, &code) in built.starts.range(0..4 * w) {
                            for call in Call::variants(code) {
                                let mut ops = pre.clone();
                                ops.push(ROp::Seek(st as u64));
                                ops.push(ROp::Code(call));
                                ops.push(ROp::Bits(9));
                                part.check(&RCase { cfg, img: img.clone(), cut_words: None, ops: with_pos(ops), free: false }, &f);
                            }
                        }
                    }
                    part.finish()
                }));
            }
        }
    }
    let n_rand = ctx.t(30_000u64, 3_000_000);
    let max_ops = ctx.t(30usize, 120);
    for j in 0..16 {
        jobs.push(Box::new(move |ctx: &Ctx| {
            let mut part = Part::new(ctx, format!("random/hist/{}", j), "proptest byte strings decoded into (configuration, item stream, history with seeks)", false);
            part.random(n_rand, max_ops * 8 + 200, &|s: &mut Src| gen_case(s, max_ops), &|c: &Case| check_case(c, env));
            part.finish()
        }));
    }
    jobs.push(Box::new(move |ctx: &Ctx| {
        let mut part = Part::new(ctx, "far_positions", "reads, seeks, skips and position reports beyond 2^32 bits on a synthetic backend, buffered and unbuffered", true);
        for e in En::ALL {
            for unbuf in [false, true] {
                for far in [1u64 << 32, (1 << 33) + 64, 1 << 40] {
                    part.check(&FarSeek { e, unbuf, far }, &|c: &FarSeek| check_far(c));
                }
            }
        }
        part.finish()
    }));
    run_jobs(ctx, jobs)
}

pub fn gen_case(s: &mut Src, max_ops: usize) -> Case {
    let cfg = gen_rcfg(s, &RBackend::ALL);
    let w = cfg.r.word().bits();
    let n_items = s.range(1, 24);
    let items: Vec<Item> = (0..n_items).map(|_| gen_item(s)).collect();
    let img = Img::Items { items: items.clone(), tail: gen_pat(s), tail_bits: s.below(3 * w + 70) as u32, seed: s.u16() as u64 };
    let built = img.build(cfg.e, w, None);
    let l = built.model.len();
    let n = s.range(1, max_ops);
    let mut ops = vec![];
    let mut cur: Option<usize> = Some(0);
    for _ in 0..n {
        match s.weighted(&[8, 3, 3, 3, 1, 1]) {
            0 => {
                if let Some(i) = cur {
                    if i < items.len() {
                        ops.extend(rop_for_item(s, &items[i]));
                        cur = Some(i + 1);
                        continue;
                    }
                }
                let j = s.below(items.len());
                ops.push(ROp::Seek(built.spans[j].0 as u64));
                cur = Some(j);
            }
            1 => {
                let j = s.below(items.len());
                ops.push(ROp::Seek(built.spans[j].0 as u64));
                cur = Some(j);
            }
            2 => {
                let p = match s.weighted(&[3, 3, 1, 1]) {
                    0 => s.below(l + 1),
                    1 => (s.below(l / w + 1) * w + s.below(3)).saturating_sub(1).min(l),
                    2 => 0,
                    _ => l,
                };
                ops.push(ROp::Seek(p as u64));
                cur = None;
            }
            3 => {
                ops.push(gen_rop_prim(s, cfg.r, 1));
                cur = None;
            }
            4 => {
                ops.push(ROp::IoRead(s.below(20) as u16));
                cur = None;
            }
            _ => {
                let mut sub = vec![];
                let mut ci = cur;
                for _ in 0..s.range(1, 4) {
                    match ci {
                        Some(i) if i < items.len() => {
                            sub.extend(rop_for_item(s, &items[i]));
                            ci = Some(i + 1);
                        }
                        _ => sub.push(gen_rop_prim(s, cfg.r, 1)),
                    }
                }
                ops.push(ROp::Fork(sub));
            }
        }
    }
    RCase { cfg, img, cut_words: None, ops: with_pos(ops), free: false }
}

/// Positions beyond 2^32 bits on a synthetic backend whose word i is a fixed function of i: reads, seeks, skips
/// and position reports far into the stream, on the buffered (u64 words) or the unbuffered reader.
#[derive(Clone, Copy, PartialEq, Eq, Hash, Debug, serde::Serialize, serde::Deserialize)]
pub struct FarSeek {
    pub e: En,
    pub unbuf: bool,
    pub far: u64,
}

fn fn_word(i: u64) -> u64 {
    let mut z = i.wrapping_add(0x9E37_79B9_7F4A_7C15).wrapping_mul(0xBF58_476D_1CE4_E5B9);
    z ^= z >> 29;
    z.wrapping_mul(0x94D0_49BB_1331_11EB) | 1
}

struct FnWords {
    pos: u64,
}
impl dsi_bitstream::traits::WordRead for FnWords {
    type Error = std::convert::Infallible;
    type Word = u64;
    fn read_word(&mut self) -> Result<u64, Self::Error> {
        let w = fn_word(self.pos);
        self.pos += 1;
        Ok(w)
    }
}
impl dsi_bitstream::traits::WordSeek for FnWords {
    type Error = std::convert::Infallible;
    fn word_pos(&mut self) -> Result<u64, Self::Error> {
        Ok(self.pos)
    }
    fn set_word_pos(&mut self, p: u64) -> Result<(), Self::Error> {
        self.pos = p;
        Ok(())
    }
}

/// the n <= 64 stream bits starting at bit p
fn far_bits(e: En, p: u64, n: usize) -> u64 {
    if n == 0 {
        return 0;
    }
    let (i, off) = (p / 64, (p % 64) as u32);
    let mask: u128 = if n == 64 { u64::MAX as u128 } else { (1u128 << n) - 1 };
    match e {
        // the reader converts every backend word with to_be(): stream-order value of word i
        En::BE => {
            let w = ((fn_word(i).to_be() as u128) << 64) | fn_word(i + 1).to_be() as u128;
            ((w >> (128 - off as usize - n)) & mask) as u64
        }
        En::LE => {
            let w = (fn_word(i).to_le() as u128) | ((fn_word(i + 1).to_le() as u128) << 64);
            ((w >> off) & mask) as u64
        }
    }
}

pub fn check_far(c: &FarSeek) -> CheckResult {
    use dsi_bitstream::prelude::*;
    let mut o = Outcome::new();
    let e = c.e;
    macro_rules! drive {
        ($rd:expr) => {{
            let mut rd = $rd;
            let mut p: u64 = 0;
            macro_rules! rd_bits {
                ($n:expr) => {{
                    let n: usize = $n;
                    match rd.read_bits(n) {
                        Ok(v) if v == far_bits(e, p, n) => p += n as u64,
                        other => vcore::fail!("far/read_bits", "{:?}: read_bits({}) at bit {} returned {:?}, expected {:#x}", c, n, p, other.map_err(|e| e.to_string()), far_bits(e, p, n)),
                    }
                }};
            }
            macro_rules! pos {
                () => {{
                    match rd.bit_pos() {
                        Ok(q) if q == p => {}
                        other => vcore::fail!("far/bit_pos", "{:?}: bit_pos() = {:?}, expected {}", c, other.map_err(|e| e.to_string()), p),
                    }
                }};
            }
            macro_rules! seek {
                ($t:expr) => {{
                    let t: u64 = $t;
                    if rd.set_bit_pos(t).is_err() {
                        vcore::fail!("far/set_bit_pos", "{:?}: set_bit_pos({}) failed", c, t);
                    }
                    p = t;
                }};
            }
            rd_bits!(5);
            pos!();
            seek!(c.far + 8);
            pos!();
            rd_bits!(13);
            seek!(5);
            rd_bits!(3);
            pos!();
            seek!(c.far + 8);
            rd_bits!(64);
            pos!();
            seek!((c.far << 1) + 70);
            rd_bits!(7);
            // a skip of more than 2^32 bits
            if rd.skip_bits((1usize << 32) + 5).is_err() {
                vcore::fail!("far/skip_bits", "{:?}: skip_bits(2^32+5) failed", c);
            }
            p += (1u64 << 32) + 5;
            pos!();
            rd_bits!(64);
            rd_bits!(1);
            pos!();
            // back by a multiple of 2^32 plus a few bits, and to a position whose low 32 bits repeat the current ones
            seek!(p - (1u64 << 32) + 3);
            rd_bits!(17);
            seek!(p + (1u64 << 32));
            pos!();
            rd_bits!(9);
        }};
    }
    match (e, c.unbuf) {
        (En::BE, false) => drive!(BufBitReader::<BE, _>::new(FnWords { pos: 0 })),
        (En::LE, false) => drive!(BufBitReader::<LE, _>::new(FnWords { pos: 0 })),
        (En::BE, true) => drive!(BitReader::<BE, _>::new(FnWords { pos: 0 })),
        (En::LE, true) => drive!(BitReader::<LE, _>::new(FnWords { pos: 0 })),
    }
    o.nt("positions_beyond_2^32_bits");
    Ok(o)
}

fn replay(v: &serde_json::Value, env: &Env) -> CheckResult {
    if v.get("far").is_some() && v.get("unbuf").is_some() {
        let c: FarSeek = serde_json::from_value(v.clone()).map_err(|e| Failure::new("replay/parse", e.to_string()))?;
        return run_guarded(&c, &|c: &FarSeek| check_far(c));
    }
    let c: Case = serde_json::from_value(v.clone()).map_err(|e| Failure::new("replay/parse", e.to_string()))?;
    run_guarded(&c, &|c: &Case| check_case(c, env))
}

fn from_bytes(data: &[u8], env: &Env) -> (serde_json::Value, CheckResult) {
    let c = gen_case(&mut Src::new(data), 60);
    let r = run_guarded(&c, &|c| check_case(c, env));
    (serde_json::to_value(&c).unwrap_or(serde_json::Value::Null), r)
}
