//! Dispatch mechanisms of the library, reached with run-time identifiers (C06, C10, C16).

use dsi_bitstream::prelude::*;
use dsi_bitstream::dispatch::{CodesReaderFactory, FactoryFuncCodeReader};
use serde::{Deserialize, Serialize};
use vcore::{Code, En};

pub type R<T> = Result<T, String>;

/// identifier constants by *name* -> the code the name denotes (written by hand from the names)
pub fn id_table() -> Vec<(&'static str, usize, Code)> {
    use code_consts::*;
    let mut v = vec![
        ("UNARY", UNARY, Code::Unary),
        ("GAMMA", GAMMA, Code::Gamma),
        ("DELTA", DELTA, Code::Delta),
        ("OMEGA", OMEGA, Code::Omega),
        ("VBYTE_BE", VBYTE_BE, Code::VByteBe),
        ("VBYTE_LE", VBYTE_LE, Code::VByteLe),
    ];
    let z = [ZETA1, ZETA2, ZETA3, ZETA4, ZETA5, ZETA6, ZETA7, ZETA8, ZETA9, ZETA10];
    for (i, &id) in z.iter().enumerate() {
        v.push(("ZETA", id, Code::Zeta(i as u32 + 1)));
    }
    let r = [RICE0, RICE1, RICE2, RICE3, RICE4, RICE5, RICE6, RICE7, RICE8, RICE9, RICE10];
    for (i, &id) in r.iter().enumerate() {
        v.push(("RICE", id, Code::Rice(i as u32)));
    }
    let p = [PI0, PI1, PI2, PI3, PI4, PI5, PI6, PI7, PI8, PI9, PI10];
    for (i, &id) in p.iter().enumerate() {
        v.push(("PI", id, Code::Pi(i as u32)));
    }
    let g = [GOLOMB1, GOLOMB2, GOLOMB3, GOLOMB4, GOLOMB5, GOLOMB6, GOLOMB7, GOLOMB8, GOLOMB9, GOLOMB10];
    for (i, &id) in g.iter().enumerate() {
        v.push(("GOLOMB", id, Code::Golomb(i as u64 + 1)));
    }
    let x = [EXP_GOLOMB0, EXP_GOLOMB1, EXP_GOLOMB2, EXP_GOLOMB3, EXP_GOLOMB4, EXP_GOLOMB5, EXP_GOLOMB6, EXP_GOLOMB7, EXP_GOLOMB8, EXP_GOLOMB9, EXP_GOLOMB10];
    for (i, &id) in x.iter().enumerate() {
        v.push(("EXP_GOLOMB", id, Code::ExpGolomb(i as u32)));
    }
    v
}

pub fn to_codes(c: Code) -> Option<Codes> {
    Some(match c {
        Code::Unary => Codes::Unary,
        Code::Gamma => Codes::Gamma,
        Code::Delta => Codes::Delta,
        Code::Omega => Codes::Omega,
        Code::VByteBe => Codes::VByteBe,
        Code::VByteLe => Codes::VByteLe,
        Code::Zeta(k) => Codes::Zeta { k: k as usize },
        Code::Pi(k) => Codes::Pi { k: k as usize },
        Code::Golomb(b) => Codes::Golomb { b: b as usize },
        Code::ExpGolomb(k) => Codes::ExpGolomb { k: k as usize },
        Code::Rice(k) => Codes::Rice { log2_b: k as usize },
        Code::MinBin(_) => return None,
    })
}

pub fn from_codes(c: &Codes) -> Code {
    match *c {
        Codes::Unary => Code::Unary,
        Codes::Gamma => Code::Gamma,
        Codes::Delta => Code::Delta,
        Codes::Omega => Code::Omega,
        Codes::VByteBe => Code::VByteBe,
        Codes::VByteLe => Code::VByteLe,
        Codes::Zeta { k } => Code::Zeta(k as u32),
        Codes::Pi { k } => Code::Pi(k as u32),
        Codes::Golomb { b } => Code::Golomb(b as u64),
        Codes::ExpGolomb { k } => Code::ExpGolomb(k as u32),
        Codes::Rice { log2_b } => Code::Rice(log2_b as u32),
        _ => unreachable!("unknown Codes variant"),
    }
}

/// Which dispatch mechanism, and through which trait path.
#[derive(Clone, Copy, PartialEq, Eq, Hash, Debug, Serialize, Deserialize, PartialOrd, Ord)]
pub enum Disp {
    /// Codes enum: inherent method / DynamicCode* / StaticCode*
    CodesInherent,
    CodesDyn,
    CodesStatic,
    /// ConstCode<ID>: inherent / dynamic / static
    ConstInherent,
    ConstDyn,
    ConstStatic,
    /// FuncCodeReader / FuncCodeWriter / FuncCodeLen
    Func,
    /// FactoryFuncCodeReader::new(code).get() (read only)
    Factory,
    /// CodesStatsWrapper around Codes (dynamic path) / around Func* or Const (static path)
    StatsDyn,
    StatsStatic,
}

impl Disp {
    pub const ALL: [Disp; 10] = [
        Disp::CodesInherent, Disp::CodesDyn, Disp::CodesStatic, Disp::ConstInherent, Disp::ConstDyn, Disp::ConstStatic,
        Disp::Func, Disp::Factory, Disp::StatsDyn, Disp::StatsStatic,
    ];
    pub fn needs_id(&self) -> bool {
        matches!(self, Disp::ConstInherent | Disp::ConstDyn | Disp::ConstStatic)
    }
}

fn es<E: std::fmt::Display>(e: E) -> String {
    format!("{}", e)
}

fn rd_const<E: Endianness, const ID: usize, CR: CodesRead<E>>(how: Disp, r: &mut CR) -> R<u64> {
    let c = ConstCode::<ID>;
    match how {
        Disp::ConstInherent => c.read(r),
        Disp::ConstDyn => DynamicCodeRead::read(&c, r),
        _ => <ConstCode<ID> as StaticCodeRead<E, CR>>::read(&c, r),
    }
    .map_err(es)
}

fn wr_const<E: Endianness, const ID: usize, CW: CodesWrite<E>>(how: Disp, w: &mut CW, v: u64) -> R<usize> {
    let c = ConstCode::<ID>;
    match how {
        Disp::ConstInherent => c.write(w, v),
        Disp::ConstDyn => DynamicCodeWrite::write(&c, w, v),
        _ => <ConstCode<ID> as StaticCodeWrite<E, CW>>::write(&c, w, v),
    }
    .map_err(es)
}

pub fn read_const_id<E: Endianness, CR: CodesRead<E>>(how: Disp, id: usize, r: &mut CR) -> R<u64> {
    match id {
            0 => rd_const::<E, 0, CR>(how, r),
            1 => rd_const::<E, 1, CR>(how, r),
            2 => rd_const::<E, 2, CR>(how, r),
            3 => rd_const::<E, 3, CR>(how, r),
            4 => rd_const::<E, 4, CR>(how, r),
            5 => rd_const::<E, 5, CR>(how, r),
            6 => rd_const::<E, 6, CR>(how, r),
            7 => rd_const::<E, 7, CR>(how, r),
            8 => rd_const::<E, 8, CR>(how, r),
            9 => rd_const::<E, 9, CR>(how, r),
            10 => rd_const::<E, 10, CR>(how, r),
            11 => rd_const::<E, 11, CR>(how, r),
            12 => rd_const::<E, 12, CR>(how, r),
            13 => rd_const::<E, 13, CR>(how, r),
            14 => rd_const::<E, 14, CR>(how, r),
            15 => rd_const::<E, 15, CR>(how, r),
            16 => rd_const::<E, 16, CR>(how, r),
            17 => rd_const::<E, 17, CR>(how, r),
            18 => rd_const::<E, 18, CR>(how, r),
            19 => rd_const::<E, 19, CR>(how, r),
            20 => rd_const::<E, 20, CR>(how, r),
            21 => rd_const::<E, 21, CR>(how, r),
            22 => rd_const::<E, 22, CR>(how, r),
            23 => rd_const::<E, 23, CR>(how, r),
            24 => rd_const::<E, 24, CR>(how, r),
            25 => rd_const::<E, 25, CR>(how, r),
            26 => rd_const::<E, 26, CR>(how, r),
            27 => rd_const::<E, 27, CR>(how, r),
            28 => rd_const::<E, 28, CR>(how, r),
            29 => rd_const::<E, 29, CR>(how, r),
            30 => rd_const::<E, 30, CR>(how, r),
            31 => rd_const::<E, 31, CR>(how, r),
            32 => rd_const::<E, 32, CR>(how, r),
            33 => rd_const::<E, 33, CR>(how, r),
            34 => rd_const::<E, 34, CR>(how, r),
            35 => rd_const::<E, 35, CR>(how, r),
            36 => rd_const::<E, 36, CR>(how, r),
            37 => rd_const::<E, 37, CR>(how, r),
            38 => rd_const::<E, 38, CR>(how, r),
            39 => rd_const::<E, 39, CR>(how, r),
            40 => rd_const::<E, 40, CR>(how, r),
            41 => rd_const::<E, 41, CR>(how, r),
            42 => rd_const::<E, 42, CR>(how, r),
            43 => rd_const::<E, 43, CR>(how, r),
            44 => rd_const::<E, 44, CR>(how, r),
            45 => rd_const::<E, 45, CR>(how, r),
            46 => rd_const::<E, 46, CR>(how, r),
            47 => rd_const::<E, 47, CR>(how, r),
            48 => rd_const::<E, 48, CR>(how, r),
            49 => rd_const::<E, 49, CR>(how, r),
            50 => rd_const::<E, 50, CR>(how, r),
        _ => Err(format!("identifier {} out of range", id)),
    }
}

pub fn write_const_id<E: Endianness, CW: CodesWrite<E>>(how: Disp, id: usize, w: &mut CW, v: u64) -> R<usize> {
    match id {
            0 => wr_const::<E, 0, CW>(how, w, v),
            1 => wr_const::<E, 1, CW>(how, w, v),
            2 => wr_const::<E, 2, CW>(how, w, v),
            3 => wr_const::<E, 3, CW>(how, w, v),
            4 => wr_const::<E, 4, CW>(how, w, v),
            5 => wr_const::<E, 5, CW>(how, w, v),
            6 => wr_const::<E, 6, CW>(how, w, v),
            7 => wr_const::<E, 7, CW>(how, w, v),
            8 => wr_const::<E, 8, CW>(how, w, v),
            9 => wr_const::<E, 9, CW>(how, w, v),
            10 => wr_const::<E, 10, CW>(how, w, v),
            11 => wr_const::<E, 11, CW>(how, w, v),
            12 => wr_const::<E, 12, CW>(how, w, v),
            13 => wr_const::<E, 13, CW>(how, w, v),
            14 => wr_const::<E, 14, CW>(how, w, v),
            15 => wr_const::<E, 15, CW>(how, w, v),
            16 => wr_const::<E, 16, CW>(how, w, v),
            17 => wr_const::<E, 17, CW>(how, w, v),
            18 => wr_const::<E, 18, CW>(how, w, v),
            19 => wr_const::<E, 19, CW>(how, w, v),
            20 => wr_const::<E, 20, CW>(how, w, v),
            21 => wr_const::<E, 21, CW>(how, w, v),
            22 => wr_const::<E, 22, CW>(how, w, v),
            23 => wr_const::<E, 23, CW>(how, w, v),
            24 => wr_const::<E, 24, CW>(how, w, v),
            25 => wr_const::<E, 25, CW>(how, w, v),
            26 => wr_const::<E, 26, CW>(how, w, v),
            27 => wr_const::<E, 27, CW>(how, w, v),
            28 => wr_const::<E, 28, CW>(how, w, v),
            29 => wr_const::<E, 29, CW>(how, w, v),
            30 => wr_const::<E, 30, CW>(how, w, v),
            31 => wr_const::<E, 31, CW>(how, w, v),
            32 => wr_const::<E, 32, CW>(how, w, v),
            33 => wr_const::<E, 33, CW>(how, w, v),
            34 => wr_const::<E, 34, CW>(how, w, v),
            35 => wr_const::<E, 35, CW>(how, w, v),
            36 => wr_const::<E, 36, CW>(how, w, v),
            37 => wr_const::<E, 37, CW>(how, w, v),
            38 => wr_const::<E, 38, CW>(how, w, v),
            39 => wr_const::<E, 39, CW>(how, w, v),
            40 => wr_const::<E, 40, CW>(how, w, v),
            41 => wr_const::<E, 41, CW>(how, w, v),
            42 => wr_const::<E, 42, CW>(how, w, v),
            43 => wr_const::<E, 43, CW>(how, w, v),
            44 => wr_const::<E, 44, CW>(how, w, v),
            45 => wr_const::<E, 45, CW>(how, w, v),
            46 => wr_const::<E, 46, CW>(how, w, v),
            47 => wr_const::<E, 47, CW>(how, w, v),
            48 => wr_const::<E, 48, CW>(how, w, v),
            49 => wr_const::<E, 49, CW>(how, w, v),
            50 => wr_const::<E, 50, CW>(how, w, v),
        _ => Err(format!("identifier {} out of range", id)),
    }
}

pub fn len_const_id(id: usize, v: u64) -> R<usize> {
    Ok(match id {
            0 => ConstCode::<0>.len(v),
            1 => ConstCode::<1>.len(v),
            2 => ConstCode::<2>.len(v),
            3 => ConstCode::<3>.len(v),
            4 => ConstCode::<4>.len(v),
            5 => ConstCode::<5>.len(v),
            6 => ConstCode::<6>.len(v),
            7 => ConstCode::<7>.len(v),
            8 => ConstCode::<8>.len(v),
            9 => ConstCode::<9>.len(v),
            10 => ConstCode::<10>.len(v),
            11 => ConstCode::<11>.len(v),
            12 => ConstCode::<12>.len(v),
            13 => ConstCode::<13>.len(v),
            14 => ConstCode::<14>.len(v),
            15 => ConstCode::<15>.len(v),
            16 => ConstCode::<16>.len(v),
            17 => ConstCode::<17>.len(v),
            18 => ConstCode::<18>.len(v),
            19 => ConstCode::<19>.len(v),
            20 => ConstCode::<20>.len(v),
            21 => ConstCode::<21>.len(v),
            22 => ConstCode::<22>.len(v),
            23 => ConstCode::<23>.len(v),
            24 => ConstCode::<24>.len(v),
            25 => ConstCode::<25>.len(v),
            26 => ConstCode::<26>.len(v),
            27 => ConstCode::<27>.len(v),
            28 => ConstCode::<28>.len(v),
            29 => ConstCode::<29>.len(v),
            30 => ConstCode::<30>.len(v),
            31 => ConstCode::<31>.len(v),
            32 => ConstCode::<32>.len(v),
            33 => ConstCode::<33>.len(v),
            34 => ConstCode::<34>.len(v),
            35 => ConstCode::<35>.len(v),
            36 => ConstCode::<36>.len(v),
            37 => ConstCode::<37>.len(v),
            38 => ConstCode::<38>.len(v),
            39 => ConstCode::<39>.len(v),
            40 => ConstCode::<40>.len(v),
            41 => ConstCode::<41>.len(v),
            42 => ConstCode::<42>.len(v),
            43 => ConstCode::<43>.len(v),
            44 => ConstCode::<44>.len(v),
            45 => ConstCode::<45>.len(v),
            46 => ConstCode::<46>.len(v),
            47 => ConstCode::<47>.len(v),
            48 => ConstCode::<48>.len(v),
            49 => ConstCode::<49>.len(v),
            50 => ConstCode::<50>.len(v),
        _ => return Err(format!("identifier {} out of range", id)),
    })
}

/// A factory handing out readers over a shared word buffer (the client-side piece the
/// FactoryFuncCodeReader mechanism needs).
pub struct MemFactory<E: Endianness, W = u32> {
    pub data: Vec<W>,
    _e: std::marker::PhantomData<E>,
}
impl<E: Endianness, W> MemFactory<E, W> {
    pub fn new(data: Vec<W>) -> Self {
        MemFactory { data, _e: std::marker::PhantomData }
    }
}
macro_rules! impl_factory {
    ($E:ty, $W:ty) => {
        impl CodesReaderFactory<$E> for MemFactory<$E, $W> {
            type CodesReader<'a> = BufBitReader<$E, MemWordReader<$W, &'a [$W], false>> where Self: 'a;
            fn new_reader(&self) -> Self::CodesReader<'_> {
                BufBitReader::<$E, _>::new(MemWordReader::new_strict(&self.data[..]))
            }
        }
    };
}
impl_factory!(BE, u32);
impl_factory!(LE, u32);
impl_factory!(BE, u8);
impl_factory!(LE, u8);

pub struct ReadObs {
    pub value: u64,
    pub pos: u64,
    pub next9: u64,
}

macro_rules! impl_dispatch {
    ($modname:ident, $E:ty, $RW:ty) => {
        pub mod $modname {
            use super::*;
            pub type DW = BufBitWriter<$E, MemWordWriterVec<u64, Vec<u64>>>;
            // strict backend: a dispatcher that reads garbage ends with an error instead of looping on zeros
            pub type DR<'a> = BufBitReader<$E, MemWordReader<$RW, &'a [$RW], false>>;

            /// write `pre` bits of 0b101.., then v through the dispatcher, then a 9-bit sentinel
            pub fn write(how: Disp, code: Code, id: Option<usize>, pre: usize, v: u64) -> R<(Vec<u8>, usize)> {
                let mut w: DW = BufBitWriter::new(MemWordWriterVec::new(Vec::new()));
                w.write_bits(0x5555_5555_5555_5555 & crate::ops::mask64(pre), pre).map_err(es)?;
                let codes = to_codes(code);
                let ret = match how {
                    Disp::CodesInherent => codes.ok_or("no enum variant")?.write(&mut w, v).map_err(es)?,
                    Disp::CodesDyn => DynamicCodeWrite::write(&codes.ok_or("no enum variant")?, &mut w, v).map_err(es)?,
                    Disp::CodesStatic => <Codes as StaticCodeWrite<$E, DW>>::write(&codes.ok_or("no enum variant")?, &mut w, v).map_err(es)?,
                    Disp::ConstInherent | Disp::ConstDyn | Disp::ConstStatic => write_const_id::<$E, DW>(how, id.ok_or("no identifier")?, &mut w, v)?,
                    Disp::Func => {
                        let f = FuncCodeWriter::<$E, DW>::new(codes.ok_or("no enum variant")?).map_err(|e| format!("unsupported: {}", e))?;
                        // every other value goes through the accessor pair get_func / new_with_func
                        if v % 2 == 0 {
                            f.write(&mut w, v).map_err(es)?
                        } else {
                            FuncCodeWriter::<$E, DW>::new_with_func(f.get_func()).write(&mut w, v).map_err(es)?
                        }
                    }
                    Disp::Factory => return Err("unsupported: factory is read-only".into()),
                    Disp::StatsDyn => {
                        let s = CodesStatsWrapper::<Codes>::new(codes.ok_or("no enum variant")?);
                        let r = DynamicCodeWrite::write(&s, &mut w, v).map_err(es)?;
                        let (_c, st) = s.into_inner();
                        if st.total != 1 {
                            return Err(format!("stats wrapper counted {} elements for one write", st.total));
                        }
                        r
                    }
                    Disp::StatsStatic => {
                        let f = FuncCodeWriter::<$E, DW>::new(codes.ok_or("no enum variant")?).map_err(|e| format!("unsupported: {}", e))?;
                        let s = CodesStatsWrapper::<FuncCodeWriter<$E, DW>>::new(f);
                        let r = StaticCodeWrite::<$E, DW>::write(&s, &mut w, v).map_err(es)?;
                        let (_c, st) = s.into_inner();
                        if st.total != 1 {
                            return Err(format!("stats wrapper counted {} elements for one write", st.total));
                        }
                        r
                    }
                };
                w.write_bits(0x1A5, 9).map_err(es)?;
                let words = w.into_inner().map_err(es)?.into_inner();
                Ok((crate::adapters::bytes_of::<u64>(&words), ret))
            }

            /// skip `pre` bits, read through the dispatcher, report value, position and the next 9 bits
            pub fn read(how: Disp, code: Code, id: Option<usize>, pre: usize, bytes: &[u8]) -> R<ReadObs> {
                let mut b = bytes.to_vec();
                while b.len() % std::mem::size_of::<$RW>() != 0 {
                    b.push(0);
                }
                let words: Vec<$RW> = crate::adapters::words_of::<$RW>(&b);
                let codes = to_codes(code);
                let fac = MemFactory::<$E, $RW>::new(words.clone());
                let mut r: DR = BufBitReader::new(MemWordReader::new_strict(&words[..]));
                r.skip_bits(pre).map_err(es)?;
                let value = match how {
                    Disp::CodesInherent => codes.ok_or("no enum variant")?.read(&mut r).map_err(es)?,
                    Disp::CodesDyn => DynamicCodeRead::read(&codes.ok_or("no enum variant")?, &mut r).map_err(es)?,
                    Disp::CodesStatic => <Codes as StaticCodeRead<$E, DR>>::read(&codes.ok_or("no enum variant")?, &mut r).map_err(es)?,
                    Disp::ConstInherent | Disp::ConstDyn | Disp::ConstStatic => read_const_id::<$E, DR>(how, id.ok_or("no identifier")?, &mut r)?,
                    Disp::Func => {
                        let f = FuncCodeReader::<$E, DR>::new(codes.ok_or("no enum variant")?).map_err(|e| format!("unsupported: {}", e))?;
                        if pre % 2 == 0 {
                            f.read(&mut r).map_err(es)?
                        } else {
                            FuncCodeReader::<$E, DR>::new_with_func(f.get_func()).read(&mut r).map_err(es)?
                        }
                    }
                    Disp::Factory => {
                        let ff = FactoryFuncCodeReader::<$E, MemFactory<$E, $RW>>::new(codes.ok_or("no enum variant")?).map_err(|e| format!("unsupported: {}", e))?;
                        // the reader handed out by the factory, positioned like `r`
                        let mut fr = fac.new_reader();
                        fr.skip_bits(pre).map_err(es)?;
                        let v = ff.get().read(&mut fr).map_err(es)?;
                        // bring `r` to the same place for the common epilogue
                        let p = fr.bit_pos().map_err(es)?;
                        r.set_bit_pos(p).map_err(es)?;
                        v
                    }
                    Disp::StatsDyn => {
                        let s = CodesStatsWrapper::<Codes>::new(codes.ok_or("no enum variant")?);
                        let v = DynamicCodeRead::read(&s, &mut r).map_err(es)?;
                        let (_c, st) = s.into_inner();
                        if st.total != 1 {
                            return Err(format!("stats wrapper counted {} elements for one read", st.total));
                        }
                        v
                    }
                    Disp::StatsStatic => {
                        let f = FuncCodeReader::<$E, DR>::new(codes.ok_or("no enum variant")?).map_err(|e| format!("unsupported: {}", e))?;
                        let s = CodesStatsWrapper::<FuncCodeReader<$E, DR>>::new(f);
                        let v = StaticCodeRead::<$E, DR>::read(&s, &mut r).map_err(es)?;
                        let (_c, st) = s.into_inner();
                        if st.total != 1 {
                            return Err(format!("stats wrapper counted {} elements for one read", st.total));
                        }
                        v
                    }
                };
                let pos = r.bit_pos().map_err(es)?;
                let next9 = r.read_bits(9).map_err(es)?;
                Ok(ReadObs { value, pos, next9 })
            }
        }
    };
}
impl_dispatch!(be, BE, u32);
impl_dispatch!(le, LE, u32);
// the same dispatchers over a reader with 8-bit words (outside the domain of every decoding table, D7: used only
// for codes whose own parameterless method consults no table)
impl_dispatch!(be8, BE, u8);
impl_dispatch!(le8, LE, u8);

pub fn d_write(e: En, how: Disp, code: Code, id: Option<usize>, pre: usize, v: u64) -> R<(Vec<u8>, usize)> {
    match e {
        En::BE => be::write(how, code, id, pre, v),
        En::LE => le::write(how, code, id, pre, v),
    }
}
pub fn d_read(e: En, how: Disp, code: Code, id: Option<usize>, pre: usize, bytes: &[u8]) -> R<ReadObs> {
    match e {
        En::BE => be::read(how, code, id, pre, bytes),
        En::LE => le::read(how, code, id, pre, bytes),
    }
}

pub fn d_read8(e: En, how: Disp, code: Code, id: Option<usize>, pre: usize, bytes: &[u8]) -> R<ReadObs> {
    match e {
        En::BE => be8::read(how, code, id, pre, bytes),
        En::LE => le8::read(how, code, id, pre, bytes),
    }
}

/// Length through a dispatcher (None when the mechanism has no length object).
pub fn d_len(how: Disp, code: Code, id: Option<usize>, v: u64) -> R<usize> {
    let codes = to_codes(code);
    match how {
        Disp::CodesInherent | Disp::CodesDyn | Disp::CodesStatic => Ok(CodeLen::len(&codes.ok_or("no enum variant")?, v)),
        Disp::ConstInherent | Disp::ConstDyn | Disp::ConstStatic => len_const_id(id.ok_or("no identifier")?, v),
        Disp::Func => {
            let f = FuncCodeLen::new(codes.ok_or("no enum variant")?).map_err(|e| format!("unsupported: {}", e))?;
            Ok(if v % 2 == 0 { f.len(v) } else { FuncCodeLen::new_with_func(f.get_func()).len(v) })
        }
        _ => Err("unsupported: no length object".into()),
    }
}

/// Every direct length entry point of the library for `code` (name, value).
pub fn direct_lens(code: Code, v: u64) -> Vec<(&'static str, usize)> {
    match code {
        Code::Unary => vec![],
        Code::Gamma => vec![("len_gamma", len_gamma(v)), ("len_gamma_param<true>", len_gamma_param::<true>(v)), ("len_gamma_param<false>", len_gamma_param::<false>(v))],
        Code::Delta => vec![
            ("len_delta", len_delta(v)),
            ("len_delta_param<false,false>", len_delta_param::<false, false>(v)),
            ("len_delta_param<false,true>", len_delta_param::<false, true>(v)),
            ("len_delta_param<true,false>", len_delta_param::<true, false>(v)),
            ("len_delta_param<true,true>", len_delta_param::<true, true>(v)),
        ],
        Code::Omega => vec![("len_omega", len_omega(v))],
        Code::Zeta(k) => vec![
            ("len_zeta", len_zeta(v, k as usize)),
            ("len_zeta_param<true>", len_zeta_param::<true>(v, k as usize)),
            ("len_zeta_param<false>", len_zeta_param::<false>(v, k as usize)),
        ],
        Code::Pi(k) => vec![("len_pi", len_pi(v, k as usize))],
        Code::Golomb(b) => vec![("len_golomb", len_golomb(v, b))],
        Code::Rice(k) => vec![("len_rice", len_rice(v, k as usize))],
        Code::ExpGolomb(k) => vec![("len_exp_golomb", len_exp_golomb(v, k as usize))],
        Code::MinBin(u) => vec![("len_minimal_binary", len_minimal_binary(v, u))],
        Code::VByteBe | Code::VByteLe => vec![("bit_len_vbyte", bit_len_vbyte(v)), ("8*byte_len_vbyte", 8 * byte_len_vbyte(v))],
    }
}
