//! C06 — length functions equal bits written equal bits consumed.

use crate::c07::with_pos;
use crate::calls::*;
use crate::dispatch::*;
use crate::ops::*;
use crate::{Env, PropDef};
use serde::{Deserialize, Serialize};
use std::collections::BTreeMap;
use vcore::engine::*;
use vcore::grid;
use vcore::refcodes;
use vcore::{fail, Code, En};

#[derive(Clone, PartialEq, Eq, Hash, Debug, Serialize, Deserialize)]
pub struct Case {
    pub e: En,
    pub code: Code,
    pub values: Vec<u64>,
    pub range: Option<(u64, u32)>,
}

pub const DEF: PropDef = PropDef {
    id: "C06",
    rule: "Cases are (endianness, code, parameter, batch of values). For every value four numbers must coincide with the reference length: (1) \
every length entry point of the library (len_*, len_*_param::<true|false>, Codes::len, ConstCode::<ID>::len for every identifier naming the \
code, FuncCodeLen::new(code) where it exists, bit_len_vbyte/byte_len_vbyte, len_minimal_binary), (2) the value returned by the library's write, \
(3) the growth of the stream measured from the words actually delivered to a recording backend, (4) the bit_pos growth of a library read of \
that codeword; (2)-(4) for every invocation variant (tables on, off, default method). Parts: every value below 2^12 (quick) / 2^18 (thorough) for parameters <= 10; the boundary grid of every code and parameter; \
every point where the reference length steps over the full 64-bit domain (found by an independent exponential+binary search on the reference \
length; first 256 steps for the linearly growing Golomb/Rice/unary), each with its neighbours v-1, v, v+1. Non-trivial: value within 1 of a \
step point, or >= 2^32, or parameter > 10; distinct = distinct (endianness, code, batch) hashes.",
    assumptions: &["reference length formulas (vcore::refcodes::len), cross-checked against the reference encoders by the self-test", "D5, D6, D1"],
    run,
    replay,
    from_bytes: None,
};

impl Case {
    fn vals(&self) -> Vec<u64> {
        match self.range {
            Some((s, l)) => (s..s + l as u64).collect(),
            None => self.values.clone(),
        }
    }
}

/// identifiers whose *name* denotes `code`
fn ids_for(code: Code) -> Vec<usize> {
    id_table().into_iter().filter(|t| t.2 == code).map(|t| t.1).collect()
}

pub fn check_case(c: &Case, env: &Env) -> CheckResult {
    let vals = c.vals();
    let mut o = Outcome::new();
    let ids = ids_for(c.code);
    let has_enum = to_codes(c.code).is_some();
    for &v in &vals {
        let l = refcodes::len(c.code, v);
        for (name, got) in direct_lens(c.code, v) {
            if got != l {
                fail!(format!("len/{}/{}", c.code.family(), name), "{}({:?}, {}) = {}, reference length {}", name, c.code, v, got, l);
            }
        }
        if has_enum {
            for how in [Disp::CodesDyn, Disp::Func] {
                match d_len(how, c.code, None, v) {
                    Ok(got) if got == l => {}
                    Ok(got) => fail!(format!("len/{}/{:?}", c.code.family(), how), "{:?} length of {:?} for {} = {}, reference {}", how, c.code, v, got, l),
                    Err(e) if e.starts_with("unsupported") => {}
                    Err(e) => fail!(format!("len/{}/{:?}/err", c.code.family(), how), "{:?} length of {:?}: {}", how, c.code, e),
                }
            }
        }
        for &id in &ids {
            match d_len(Disp::ConstDyn, c.code, Some(id), v) {
                Ok(got) if got == l => {}
                o2 => fail!(format!("len/{}/ConstCode", c.code.family()), "ConstCode::<{}>::len({}) = {:?}, reference {} for {:?}", id, v, o2, l, c.code),
            }
        }
        if v >= 1 << 32 {
            o.nt("value_ge_2^32");
        }
        if c.code.param() > 10 {
            o.nt("parameter_gt_10");
        }
        let near_step = (v > 0 && refcodes::len(c.code, v - 1) != l) || (v < c.code.max_value() && fold_ok(c.code, v + 1) && refcodes::len(c.code, v + 1) != l);
        if near_step {
            o.nt("within_1_of_length_step");
        }
    }
    // (2)+(3): library write on a recording backend: return values and delivered bits;
    // (4): library read, position growth -- for every invocation variant (table options on/off/default)
    let variants = Call::variants(c.code);
    for (vi, call) in variants.iter().enumerate() {
        let mut wops: Vec<WOp> = vec![WOp::Bits { v: 5, n: 3 }];
        for &v in &vals {
            wops.push(WOp::Code { call: *call, v });
        }
        wops.push(WOp::Bits { v: 0x155, n: 9 });
        let done = run_writer(WCfg::new(c.e, Wd::U64, WBackend::Recording), WEnd::IntoInner, &wops).map_err(|mut f| {
            f.sig = format!("w/{}", f.sig);
            f
        })?;
        let model = vcore::BitVec::from_bytes(&done.bytes, c.e);
        let mut starts = BTreeMap::new();
        let mut p = 3usize;
        let mut rops = vec![ROp::Bits(3)];
        for &v in &vals {
            starts.insert(p, c.code);
            p += refcodes::len(c.code, v);
            rops.push(ROp::Code(*call));
        }
        rops.push(ROp::Bits(9));
        // readers rotate with the variant; all of them may use every table (D7 is still enforced by run_reader)
        let rk = [RKind::Buf(Wd::U32), RKind::Buf(Wd::U64), RKind::Unbuf, RKind::Buf(Wd::U16)][vi % 4];
        let s = RStream { cfg: RCfg::new(c.e, rk, RBackend::Strict), model: &model, starts: &starts, tables: &env.tables, free_codes: &[] };
        run_reader(&s, &with_pos(rops)).map_err(|mut f| {
            f.sig = format!("r/{}", f.sig);
            f
        })?;
    }
    if variants.len() > 1 {
        o.label("all_table_options");
    }
    Ok(o)
}

fn fold_ok(c: Code, v: u64) -> bool {
    grid::fold(c, v) == v
}

/// Every value at which the reference length changes, over the generated domain of `c`
/// (independent exponential + binary search; at most `max_steps`).
pub fn ref_step_points(c: Code, max_steps: usize) -> Vec<u64> {
    let top = match c {
        Code::Unary => grid::UNARY_CAP,
        Code::Rice(k) => (((grid::UNARY_CAP as u128 + 1) << k) - 1).min(u64::MAX as u128) as u64,
        Code::Golomb(b) => ((grid::UNARY_CAP as u128 + 1) * b as u128 - 1).min(u64::MAX as u128) as u64,
        _ => c.max_value(),
    };
    let mut out = vec![];
    let mut cur = 0u64;
    let mut cur_len = refcodes::len(c, 0);
    while out.len() < max_steps {
        // find the smallest x > cur with len(x) != cur_len
        if refcodes::len(c, top) == cur_len {
            break;
        }
        let mut lo = cur; // len(lo) == cur_len
        let mut step = 1u64;
        let mut hi;
        loop {
            let cand = lo.saturating_add(step).min(top);
            if refcodes::len(c, cand) != cur_len {
                hi = cand;
                break;
            }
            lo = cand;
            step = step.saturating_mul(2);
        }
        while hi - lo > 1 {
            let mid = lo + (hi - lo) / 2;
            if refcodes::len(c, mid) == cur_len {
                lo = mid;
            } else {
                hi = mid;
            }
        }
        out.push(hi);
        cur = hi;
        cur_len = refcodes::len(c, hi);
        if cur == top {
            break;
        }
    }
    out
}

fn small_param_codes(maxk: u32) -> Vec<Code> {
    let mut v = vec![Code::Unary, Code::Gamma, Code::Delta, Code::Omega, Code::VByteBe, Code::VByteLe];
    for k in 0..=maxk {
        if k >= 1 {
            v.push(Code::Zeta(k));
        }
        v.push(Code::Pi(k));
        v.push(Code::Rice(k));
        v.push(Code::ExpGolomb(k));
    }
    for b in 1..=(2 * maxk as u64) {
        v.push(Code::Golomb(b));
        v.push(Code::MinBin(b));
    }
    v
}

fn run(ctx: &Ctx, env: &Env) -> Stats {
    let mut jobs: Vec<Job> = vec![];
    let top: u64 = ctx.t(1 << 12, 1 << 18);
    for e in En::ALL {
        for (ci, chunk) in small_param_codes(10).chunks(6).enumerate() {
            let chunk = chunk.to_vec();
            jobs.push(Box::new(move |ctx: &Ctx| {
                let mut part = Part::new(ctx, format!("allsmall/{}/{}", e.name(), ci), "every value below the bound for small-parameter codes", true);
                let f = |c: &Case| check_case(c, env);
                for &code in &chunk {
                    let lim = match code {
                        Code::MinBin(u) => u.min(top),
                        Code::Unary => top.min(grid::UNARY_CAP),
                        Code::Rice(k) => top.min((grid::UNARY_CAP + 1) << k),
                        Code::Golomb(b) => top.min((grid::UNARY_CAP + 1) * b),
                        _ => top,
                    };
                    let mut s = 0u64;
                    while s < lim {
                        let l = (lim - s).min(48) as u32;
                        part.check(&Case { e, code, values: vec![], range: Some((s, l)) }, &f);
                        s += l as u64;
                    }
                }
                part.finish()
            }));
        }
        for (ci, chunk) in grid::all_codes_small().chunks(10).enumerate() {
            let chunk = chunk.to_vec();
            jobs.push(Box::new(move |ctx: &Ctx| {
                let mut part = Part::new(ctx, format!("steps/{}/{}", e.name(), ci), "every reference length step over the 64-bit domain (v-1, v, v+1), plus the boundary grid", false);
                let f = |c: &Case| check_case(c, env);
                for &code in &chunk {
                    let linear = matches!(code, Code::Unary | Code::Rice(_) | Code::Golomb(_));
                    let steps = ref_step_points(code, if linear { 256 } else { 100_000 });
                    let mut vals: Vec<u64> = vec![];
                    for s in steps {
                        for d in [s.wrapping_sub(1), s, s.saturating_add(1)] {
                            if fold_ok(code, d) {
                                vals.push(d);
                            }
                        }
                    }
                    vals.extend(grid::values_for_n(code, 0, ctx.t(32, 400), ctx.seed + 2));
                    vals.sort_unstable();
                    vals.dedup();
                    for batch in vals.chunks(32) {
                        part.check(&Case { e, code, values: batch.to_vec(), range: None }, &f);
                    }
                }
                part.finish()
            }));
        }
    }
    run_jobs(ctx, jobs)
}

fn replay(v: &serde_json::Value, env: &Env) -> CheckResult {
    let c: Case = serde_json::from_value(v.clone()).map_err(|e| Failure::new("replay/parse", e.to_string()))?;
    run_guarded(&c, &|c: &Case| check_case(c, env))
}
