//! C20 — code lengths are monotone and Kraft-bounded; change-point search is exact.

use crate::{Env, PropDef};
use dsi_bitstream::prelude::*;
use serde::{Deserialize, Serialize};
use std::cell::Cell;
use vcore::engine::*;
use vcore::grid::Rng;
use vcore::{fail, Code};

#[derive(Clone, PartialEq, Eq, Hash, Debug, Serialize, Deserialize)]
pub enum Case {
    /// len(v) <= len(v+1) for v in start..start+n, and the exact Kraft sum of the first `kraft_n` values
    Monotone { code: Code, start: u64, n: u32 },
    Pairs { code: Code, pairs: Vec<(u64, u64)> },
    Kraft { code: Code, n: u64 },
    /// exact Kraft sum over the whole domain via the library length function's own brackets
    KraftFull { code: Code },
    /// FindChangePoints on a library length function
    IterLib { code: Code },
    /// FindChangePoints on a synthetic monotone step function: f(x) = base + #{s in steps : s <= x}
    /// with `top` the values are shifted so that the last one is usize::MAX (the function is still an ordinary
    /// non-decreasing function; a constant one then equals usize::MAX everywhere)
    IterSynth {
        base: u32,
        steps: Vec<u64>,
        #[serde(default)]
        top: bool,
    },
    /// get_implied_distribution on a library length function
    Implied { code: Code },
}

pub const DEF: PropDef = PropDef {
    id: "C20",
    rule: "Monotonicity: for every code x parameter (zeta 1..=16,24,32,48,63; pi/exp-Golomb/Rice 0..=16,24,32,48,63; Golomb and minimal binary \
moduli 1..=64 and sampled large) the library length of v (through every length entry point: len_*, len_*_param::<true|false>, ...) is <= that of v+1 for every v below 2^16 (quick) / 2^22 (thorough), around every power \
of two up to 2^64-2, and for seeded random pairs a <= b. Kraft: exact integer arithmetic (carry propagation over the histogram of lengths) of \
sum_{n<N} 2^-len(n) <= 1 for N = 2^16 / 2^22 (partial sums are non-decreasing in N), and over the full 64-bit domain for the universal codes via \
brackets of constant length found by an independent bisection on the library length function and validated by random probes inside each \
bracket. Iterator: FindChangePoints on every library length function and on synthetic monotone step functions with arbitrary sorted step \
positions (0..=12 steps from {small, 2^i+-1, random, beyond 2^63}, constant functions included): the first item is (0, f(0)); positions \
strictly increase; every item is a true change point paired with the new value; no change point <= 2^63 is missing; the iterator returns None \
after at most (number of change points + 1) items; no single next() evaluates the function more than 4096 times (deterministic \
non-termination detector: an exponential plus binary search needs < 200) or panics. get_implied_distribution returns for every library length \
function with change points and probabilities equal to brute force, and sample_implied_distribution yields values inside the support. Non-trivial: every case (each batch covers length steps); distinct = \
distinct case hashes; elementary_checks counts values / pairs / iterator items.",
    assumptions: &["exact integer arithmetic for Kraft sums", "D14: change points above 2^63 may be missed by the iterator but whatever it yields must be right and it must end", "D5/D6 domains"],
    run,
    replay,
    from_bytes: None,
};

pub fn lib_len(code: Code, v: u64) -> usize {
    match code {
        Code::Unary => v as usize + 1,
        Code::Gamma => len_gamma(v),
        Code::Delta => len_delta(v),
        Code::Omega => len_omega(v),
        Code::Zeta(k) => len_zeta(v, k as usize),
        Code::Pi(k) => len_pi(v, k as usize),
        Code::Golomb(b) => len_golomb(v, b),
        Code::Rice(k) => len_rice(v, k as usize),
        Code::ExpGolomb(k) => len_exp_golomb(v, k as usize),
        Code::MinBin(u) => len_minimal_binary(v, u),
        Code::VByteBe | Code::VByteLe => bit_len_vbyte(v),
    }
}

/// largest value for which the library length function may be called
fn len_domain_max(code: Code) -> u64 {
    match code {
        // Golomb/Rice/unary lengths grow linearly: the *function* is defined on the whole domain
        Code::Unary => u64::MAX - 1,
        Code::MinBin(u) => u - 1,
        _ => code.max_value(),
    }
}

/// exact test of sum_l count[l] * 2^-l <= 1 (counts may be as large as 2^64): binary carry
/// propagation from the deepest level up to level 0
fn kraft_ok(hist: &std::collections::BTreeMap<usize, u128>) -> bool {
    let Some((&maxl, _)) = hist.iter().next_back() else { return true };
    let mut carry: u128 = 0;
    let mut frac_nonzero = false;
    for l in (1..=maxl).rev() {
        carry += hist.get(&l).copied().unwrap_or(0);
        if carry & 1 == 1 {
            frac_nonzero = true;
        }
        carry >>= 1;
    }
    let int_part = carry + hist.get(&0).copied().unwrap_or(0);
    int_part == 0 || (int_part == 1 && !frac_nonzero)
}

thread_local! {
    static EVALS: Cell<u64> = const { Cell::new(0) };
}
const BUDGET: u64 = 4096;

fn counted<F: Fn(u64) -> usize>(f: F) -> impl Fn(u64) -> usize {
    move |x| {
        EVALS.with(|e| {
            e.set(e.get() + 1);
            if e.get() > BUDGET {
                panic!("evaluation budget exceeded: next() does not terminate");
            }
        });
        f(x)
    }
}

/// Drive FindChangePoints and check every item against `truth` (the true change points <= limit).
fn check_iterator<F: Fn(u64) -> usize>(f: F, truth_upto_2_63: &[u64], what: &str, o: &mut Outcome) -> Result<Vec<(u64, usize)>, Failure> {
    let g = counted(&f);
    let mut it = FindChangePoints::new(g);
    let mut items: Vec<(u64, usize)> = vec![];
    let max_items = truth_upto_2_63.len() + 200;
    loop {
        EVALS.with(|e| e.set(0));
        let nx = match guarded(|| it.next()) {
            Ok(x) => x,
            Err(p) => {
                let sig = if p.contains("budget") { "iter/nontermination" } else { "iter/panic" };
                return Err(Failure::new(sig, format!("{}: next() after {} items ({:?} last): {}", what, items.len(), items.last(), p)));
            }
        };
        match nx {
            None => break,
            Some((x, val)) => {
                o.units += 1;
                if items.is_empty() {
                    if x != 0 || val != f(0) {
                        fail!("iter/first", "{}: first item is ({}, {}), expected (0, {})", what, x, val, f(0));
                    }
                } else {
                    let (px, pv) = *items.last().unwrap();
                    if x <= px {
                        fail!("iter/order", "{}: item ({}, {}) after ({}, {}) is not increasing", what, x, val, px, pv);
                    }
                    if f(x) != val || f(x - 1) == val {
                        fail!("iter/not_a_change_point", "{}: item ({}, {}) but f({}) = {}, f({}) = {}", what, x, val, x, f(x), x - 1, f(x - 1));
                    }
                }
                items.push((x, val));
                if items.len() > max_items {
                    fail!("iter/too_many", "{}: more than {} items", what, max_items);
                }
            }
        }
    }
    // completeness up to 2^63
    let got: Vec<u64> = items.iter().map(|i| i.0).filter(|&x| x <= 1 << 63).collect();
    let mut exp: Vec<u64> = vec![0];
    exp.extend(truth_upto_2_63.iter().copied().filter(|&x| x != 0));
    if got != exp {
        let missing: Vec<&u64> = exp.iter().filter(|x| !got.contains(x)).take(5).collect();
        fail!("iter/missing", "{}: change points up to 2^63 yielded {:?}..., expected {:?}...; missing {:?}", what, &got[..got.len().min(8)], &exp[..exp.len().min(8)], missing);
    }
    Ok(items)
}

/// change points of a monotone function in (0, top], by an independent exponential + binary search
fn own_change_points<F: Fn(u64) -> usize>(f: &F, top: u64, max: usize) -> Vec<u64> {
    let mut out = vec![];
    let mut cur = 0u64;
    while out.len() < max {
        let cv = f(cur);
        if f(top) == cv {
            break;
        }
        let mut lo = cur;
        let mut step = 1u64;
        let mut hi;
        loop {
            let cand = lo.saturating_add(step).min(top);
            if f(cand) != cv {
                hi = cand;
                break;
            }
            lo = cand;
            step = step.saturating_mul(2);
        }
        while hi - lo > 1 {
            let mid = lo + (hi - lo) / 2;
            if f(mid) == cv {
                lo = mid;
            } else {
                hi = mid;
            }
        }
        out.push(hi);
        cur = hi;
        if cur == top {
            break;
        }
    }
    out
}

pub fn check_case(c: &Case, _env: &Env) -> CheckResult {
    let mut o = Outcome::new();
    o.nt("case");
    match c {
        Case::Monotone { code, start, n } => {
            let top = len_domain_max(*code);
            let mut prev = lib_len(*code, *start);
            // every length entry point of the code (table options included) must be monotone
            let mut prev_all = crate::dispatch::direct_lens(*code, *start);
            for v in *start..(*start).saturating_add(*n as u64) {
                if v >= top {
                    break;
                }
                let nx = lib_len(*code, v + 1);
                if nx < prev {
                    fail!(format!("monotone/{}", code.family()), "{:?}: len({}) = {} > len({}) = {}", code, v, prev, v + 1, nx);
                }
                prev = nx;
                let nx_all = crate::dispatch::direct_lens(*code, v + 1);
                for (a, b) in prev_all.iter().zip(nx_all.iter()) {
                    if b.1 < a.1 {
                        fail!(format!("monotone/{}/{}", code.family(), a.0), "{:?}: {}({}) = {} > {}({}) = {}", code, a.0, v, a.1, b.0, v + 1, b.1);
                    }
                }
                prev_all = nx_all;
                o.units += 1;
            }
        }
        Case::Pairs { code, pairs } => {
            for &(a, b) in pairs {
                let (a, b) = (a.min(b), a.max(b));
                if lib_len(*code, a) > lib_len(*code, b) {
                    fail!(format!("monotone/{}", code.family()), "{:?}: len({}) = {} > len({}) = {}", code, a, lib_len(*code, a), b, lib_len(*code, b));
                }
                o.units += 1;
            }
        }
        Case::Kraft { code, n } => {
            let mut hist = std::collections::BTreeMap::new();
            let top = len_domain_max(*code);
            for v in 0..*n {
                if v > top {
                    break;
                }
                *hist.entry(lib_len(*code, v)).or_insert(0u128) += 1;
                o.units += 1;
            }
            if !kraft_ok(&hist) {
                fail!(format!("kraft/{}", code.family()), "{:?}: the lengths of the first {} values violate Kraft's inequality", code, n);
            }
        }
        Case::KraftFull { code } => {
            let top = len_domain_max(*code);
            let f = |x: u64| lib_len(*code, x);
            let cps = own_change_points(&f, top, 100_000);
            let mut hist = std::collections::BTreeMap::new();
            let mut r = Rng::new(code.param() ^ 0xC20);
            let mut lo = 0u64;
            for (i, &cp) in cps.iter().chain([top].iter()).enumerate() {
                // bracket [lo, hi] of constant length (hi inclusive); the last bracket ends at top
                let last = i == cps.len();
                let hi = if last { top } else { cp - 1 };
                if hi < lo {
                    continue;
                }
                let l = f(lo);
                // validate the bracket by probes (monotonicity makes the end points decisive)
                if f(hi) != l {
                    fail!("kraft/bracket", "{:?}: bracket [{}, {}] is not of constant length", code, lo, hi);
                }
                for _ in 0..4 {
                    let x = lo + r.below(hi - lo + 1);
                    if f(x) != l {
                        fail!(format!("monotone/{}", code.family()), "{:?}: len({}) = {} inside a bracket of length {} [{}, {}]", code, x, f(x), l, lo, hi);
                    }
                }
                *hist.entry(l).or_insert(0u128) += (hi - lo) as u128 + 1;
                o.units += 1;
                if last {
                    break;
                }
                lo = cp;
            }
            if !kraft_ok(&hist) {
                fail!(format!("kraft_full/{}", code.family()), "{:?}: the lengths over the whole domain violate Kraft's inequality", code);
            }
        }
        Case::IterLib { code } => {
            let code = *code;
            let f = move |x: u64| lib_len(code, x);
            // the iterator never evaluates at u64::MAX; the truth is computed on [0, 2^63]
            let truth = own_change_points(&f, 1 << 63, 100_000);
            check_iterator(f, &truth, &format!("{:?}", code), &mut o)?;
        }
        Case::IterSynth { base, steps, top } => {
            let mut st = steps.clone();
            st.sort_unstable();
            st.dedup();
            st.retain(|&s| s != 0);
            let st2 = st.clone();
            let base = *base as usize;
            let (top, k) = (*top, st.len());
            let f = move |x: u64| {
                let cnt = st2.partition_point(|&s| s <= x);
                if top {
                    usize::MAX - (k - cnt)
                } else {
                    base + cnt
                }
            };
            if top {
                o.nt("values_reach_usize_max");
            }
            let truth: Vec<u64> = st.iter().copied().filter(|&s| s <= 1 << 63).collect();
            check_iterator(f, &truth, &format!("synthetic steps {:?}", st), &mut o)?;
            if st.is_empty() {
                o.label("constant_function");
            }
            if st.iter().any(|&s| s > 1 << 63) {
                o.label("step_beyond_2^63");
            }
        }
        Case::Implied { code } => {
            let code = *code;
            let f = move |x: u64| lib_len(code, x);
            EVALS.with(|e| e.set(0));
            // budget: the whole computation may evaluate f many times, the detector counts per call here
            let res = guarded(|| {
                let g = move |x: u64| {
                    EVALS.with(|e| {
                        e.set(e.get() + 1);
                        if e.get() > 200 * BUDGET {
                            panic!("evaluation budget exceeded: get_implied_distribution does not terminate");
                        }
                    });
                    lib_len(code, x)
                };
                get_implied_distribution(g)
            });
            let (cps, probs) = match res {
                Ok(x) => x,
                Err(p) => fail!(if p.contains("budget") { "implied/nontermination" } else { "implied/panic" }, "get_implied_distribution({:?}): {}", code, p),
            };
            // brute force: walk the change points by bisection while the length stays within the 128 bits that
            // the implied distribution keeps (so that codes with linearly growing lengths are enumerable too)
            let mut exp: Vec<(u64, usize)> = vec![(0, f(0))];
            loop {
                let (x0, l0) = *exp.last().unwrap();
                if l0 > 128 {
                    break;
                }
                // smallest x > x0 with f(x) != l0, searched up to 2^63
                let top = 1u64 << 63;
                if x0 >= top || f(top) == l0 {
                    break;
                }
                let (mut lo, mut hi) = (x0, top); // f(lo) == l0, f(hi) != l0
                while hi - lo > 1 {
                    let mid = lo + (hi - lo) / 2;
                    if f(mid) == l0 {
                        lo = mid;
                    } else {
                        hi = mid;
                    }
                }
                exp.push((hi, f(hi)));
                if exp.len() > 100_000 {
                    break;
                }
            }
            let exp: Vec<(u64, usize)> = exp.into_iter().take_while(|x| x.1 <= 128).collect();
            let got: Vec<(u64, usize)> = cps.iter().copied().filter(|x| x.0 <= 1 << 63).collect();
            if got != exp {
                fail!("implied/change_points", "{:?}: change points {:?}... differ from brute force {:?}...", code, &got[..got.len().min(6)], &exp[..exp.len().min(6)]);
            }
            if probs.len() + 1 != cps.len() && !(cps.is_empty() && probs.is_empty()) {
                fail!("implied/probabilities", "{:?}: {} change points but {} probabilities", code, cps.len(), probs.len());
            }
            for (i, w) in cps.windows(2).enumerate() {
                let e = 2.0_f64.powi(-(w[0].1 as i32)) * (w[1].0 - w[0].0) as f64;
                if (probs[i] - e).abs() > 1e-12 * e.max(1e-300) {
                    fail!("implied/probabilities", "{:?}: probability #{} = {}, expected {}", code, i, probs[i], e);
                }
                o.units += 1;
            }
            // sampling can be set up and yields values of the sampled bracket
            if cps.len() >= 2 {
                use rand::SeedableRng;
                EVALS.with(|e| e.set(0));
                let res = guarded(|| {
                    let mut rng = rand::rngs::SmallRng::seed_from_u64(code.param().wrapping_add(20));
                    let g = move |x: u64| {
                        EVALS.with(|e| {
                            e.set(e.get() + 1);
                            if e.get() > 200 * BUDGET {
                                panic!("evaluation budget exceeded: sample_implied_distribution does not terminate");
                            }
                        });
                        lib_len(code, x)
                    };
                    sample_implied_distribution(g, &mut rng).take(200).collect::<Vec<u64>>()
                });
                match res {
                    Ok(samples) => {
                        let last = cps.last().unwrap().0;
                        for x in samples {
                            if x >= last || f(x) > 128 {
                                fail!("implied/sample", "{:?}: sampled value {} lies outside the implied distribution's support (last change point {})", code, x, last);
                            }
                            o.units += 1;
                        }
                    }
                    Err(p) => fail!(if p.contains("budget") { "implied/nontermination" } else { "implied/sample_panic" }, "sample_implied_distribution({:?}): {}", code, p),
                }
            }
        }
    }
    Ok(o)
}

fn code_list(ctx: &Ctx) -> Vec<Code> {
    let mut v = vec![Code::Unary, Code::Gamma, Code::Delta, Code::Omega, Code::VByteBe];
    let ks: Vec<u32> = (0..=16).chain([24, 32, 48, 63]).collect();
    for &k in &ks {
        if k >= 1 {
            v.push(Code::Zeta(k));
        }
        v.push(Code::Pi(k));
        v.push(Code::ExpGolomb(k));
        v.push(Code::Rice(k));
    }
    for b in (1..=64u64).chain([100, 1000, (1 << 20) + 1, (1 << 32) - 1, 1 << 32, (1 << 63) + 1, u64::MAX]) {
        v.push(Code::Golomb(b));
        if !ctx.quick() || b <= 16 || b > 64 {
            v.push(Code::MinBin(b));
        }
    }
    v
}

fn universal(code: Code) -> bool {
    matches!(code, Code::Gamma | Code::Delta | Code::Omega | Code::Zeta(_) | Code::Pi(_) | Code::ExpGolomb(_) | Code::VByteBe)
}

fn run(ctx: &Ctx, env: &Env) -> Stats {
    let mut jobs: Vec<Job> = vec![];
    let top: u64 = ctx.t(1 << 16, 1 << 22);
    let codes = code_list(ctx);
    for (ci, chunk) in codes.chunks(8).enumerate() {
        let chunk = chunk.to_vec();
        jobs.push(Box::new(move |ctx: &Ctx| {
            let mut part = Part::new(ctx, format!("lengths/{}", ci), "monotone on all small values and around powers of two (every length entry point incl. table options), random pairs, exact Kraft sums", false);
            let f = |c: &Case| check_case(c, env);
            let mut r = Rng::new(ctx.seed + ci as u64);
            for &code in &chunk {
                let dm = len_domain_max(code);
                let mut s = 0u64;
                while s < top.min(dm) {
                    part.check(&Case::Monotone { code, start: s, n: 4096 }, &f);
                    s += 4096;
                }
                for i in 2..64u32 {
                    let p = 1u64 << i;
                    if p - 3 < dm {
                        part.check(&Case::Monotone { code, start: p - 3, n: 6 }, &f);
                    }
                }
                if dm > 8 {
                    part.check(&Case::Monotone { code, start: dm - 8, n: 8 }, &f);
                }
                for _ in 0..ctx.t(8, 200) {
                    let pairs = (0..64)
                        .map(|_| {
                            let a = r.mag() % (dm as u128 + 1).min(u64::MAX as u128) as u64;
                            let b = if r.below(2) == 0 { a.saturating_add(r.below(5)).min(dm) } else { r.mag() % (dm as u128 + 1).min(u64::MAX as u128) as u64 };
                            (a, b)
                        })
                        .collect();
                    part.check(&Case::Pairs { code, pairs }, &f);
                }
                part.check(&Case::Kraft { code, n: top }, &f);
                part.check(&Case::Kraft { code, n: 1000 }, &f);
                if universal(code) {
                    part.check(&Case::KraftFull { code }, &f);
                }
            }
            part.finish()
        }));
    }
    jobs.push(Box::new(move |ctx: &Ctx| {
        let mut part = Part::new(ctx, "iterator/library", "FindChangePoints and get_implied_distribution on every library length function", true);
        let f = |c: &Case| check_case(c, env);
        for code in code_list(ctx) {
            if matches!(code, Code::MinBin(_)) {
                continue; // defined only below the bound: not a function on the whole domain
            }
            if matches!(code, Code::Unary | Code::Rice(_) | Code::Golomb(_)) {
                // linearly growing lengths have up to 2^63 change points: the iterator is not enumerable, but the
                // implied distribution stops at 128 bits
                part.check(&Case::Implied { code }, &f);
                continue;
            }
            part.check(&Case::IterLib { code }, &f);
            part.check(&Case::Implied { code }, &f);
        }
        part.finish()
    }));
    jobs.push(Box::new(move |ctx: &Ctx| {
        let mut part = Part::new(ctx, "iterator/extreme_values", "step functions whose values end at usize::MAX (constant, one step, several steps)", true);
        let f = |c: &Case| check_case(c, env);
        // the chain 2^64 - 2^k (k = 63..=1) walks the search right up to u64::MAX - 1, with and without a last step at u64::MAX
        let chain: Vec<u64> = (1..=63u32).rev().map(|k| (u64::MAX - (1u64 << k)) + 1).collect();
        let mut chain_top = chain.clone();
        chain_top.push(u64::MAX);
        let mut tail_chain: Vec<u64> = (1..=20u32).rev().map(|k| (u64::MAX - (1u64 << k)) + 1).collect();
        tail_chain.push(u64::MAX);
        for steps in [vec![], vec![1u64], vec![2], vec![65535], vec![1 << 40], vec![3, 1 << 62], vec![1 << 63], vec![5, 6, 7, (1 << 63) + 9], chain, chain_top, tail_chain, vec![u64::MAX - 1], vec![u64::MAX - 1, u64::MAX], vec![u64::MAX]] {
            for top in [true, false] {
                part.check(&Case::IterSynth { base: 0, steps: steps.clone(), top }, &f);
            }
        }
        part.finish()
    }));
    let n_rand = ctx.t(20_000u64, 500_000);
    for j in 0..8 {
        jobs.push(Box::new(move |ctx: &Ctx| {
            let mut part = Part::new(ctx, format!("iterator/synthetic/{}", j), "proptest byte strings decoded into sorted step positions (0..=12 steps)", false);
            part.random(n_rand, 160, &|s: &mut Src| gen_synth(s), &|c: &Case| check_case(c, env));
            part.finish()
        }));
    }
    run_jobs(ctx, jobs)
}

pub fn gen_synth(s: &mut Src) -> Case {
    let n = s.below(13);
    let steps = (0..n)
        .map(|_| match s.weighted(&[3, 3, 2, 2]) {
            0 => s.below(300) as u64,
            1 => s.near_pow2(),
            2 => s.mag64(),
            _ => (1u64 << 63).wrapping_add(s.mag64() >> 1),
        })
        .collect();
    Case::IterSynth { base: s.below(200) as u32, steps, top: s.below(8) == 0 }
}

fn replay(v: &serde_json::Value, env: &Env) -> CheckResult {
    let c: Case = serde_json::from_value(v.clone()).map_err(|e| Failure::new("replay/parse", e.to_string()))?;
    run_guarded(&c, &|c: &Case| check_case(c, env))
}
