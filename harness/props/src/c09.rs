//! C09 — end of stream: data is never fabricated and the tail is never lost.

use crate::c07::with_pos;
use crate::calls::*;
use crate::ops::*;
use crate::streams::*;
use crate::{Env, PropDef};
use vcore::engine::*;
use vcore::{Code, En};

pub type Case = RCase;

pub const DEF: PropDef = PropDef {
    id: "C09",
    rule: "Cases are (reader configuration, reference-encoded valid stream, cut after k backend words, history reading the items in order). \
Enumerated part: for every code invocation of a menu (all table options) x a few values x every padding residue 0..W-1 before the item x every \
cut position, on every strict backend (strict memory reader, vector/slice writer read back, byte adapter over a truncated Cursor/BufReader) and \
on the zero-extended twin; plus every primitive (read_bits all n, peek_bits all n, skip_bits, read_unary, io::Read) at every residue against the \
end of 1..3-word streams. Random part: proptest byte strings decoded into item streams, every cut 0..=words is tried. Oracle: an item lying \
entirely within the kept data must decode to its value with the right position whatever the table options (look-ahead past the end must fall \
back); the first operation needing a bit beyond the cut must return Err, never Ok(value) (skip_bits may also return Ok, D9); on the \
zero-extended twin the same primitives never fail and see zeros. Non-trivial: the cut falls inside or right after an item, or a table \
look-ahead crosses the cut; distinct = distinct case hashes.",
    assumptions: &[
        "reference decoders; a truncated valid stream is a prefix of a valid stream, so a prefix-free decoder needs a bit beyond the cut iff the codeword crosses it",
        "D8: the history ends at the first Err; D9: skip_bits past the end may return Ok or Err; D15: cuts at multiples of the reader word",
    ],
    run,
    replay,
    from_bytes: Some(from_bytes),
};

pub fn check_case(c: &Case, env: &Env) -> CheckResult {
    let (n, b) = check_rcase(c, env)?;
    let mut o = Outcome::new();
    let l = b.model.len();
    let cut_in_or_after_item = b.spans.iter().any(|&(s, e2)| (s < l && l < e2) || e2 == l);
    if c.cut_words.is_some() && (n.cut_inside_item || (cut_in_or_after_item && n.executed > 0)) {
        o.nt("cut_inside_or_right_after_item");
    }
    if n.table_lookahead_crossed_end {
        o.nt("table_lookahead_crosses_cut");
    }
    if n.hit_end_error {
        o.nt("end_error_reported");
    }
    if n.beyond_end_zero {
        o.label("zeros_beyond_end");
    }
    if n.stopped_on_error {
        o.label("history_stopped_at_first_err");
    }
    Ok(o)
}

fn call_menu() -> Vec<(Call, Vec<u64>)> {
    let mut v: Vec<(Call, Vec<u64>)> = vec![];
    let small = vec![0u64, 1, 2, 6, 7, 14, 15, 62, 63, 64, 200, 1022, 1023, 1024, 70000];
    for code in [Code::Gamma, Code::Delta, Code::Zeta(3)] {
        for call in Call::variants(code) {
            v.push((call, small.clone()));
        }
    }
    for code in [
        Code::Omega,
        Code::Zeta(2),
        Code::Zeta(5),
        Code::Pi(0),
        Code::Pi(3),
        Code::Golomb(3),
        Code::Golomb(10),
        Code::Rice(0),
        Code::Rice(4),
        Code::ExpGolomb(0),
        Code::ExpGolomb(3),
        Code::MinBin(7),
        Code::MinBin(1000),
        Code::VByteBe,
        Code::VByteLe,
        Code::Unary,
    ] {
        let vals: Vec<u64> = [0u64, 1, 5, 6, 40, 127, 128, 300, 20000, (1 << 40) + 3]
            .iter()
            .map(|&x| vcore::grid::fold(code, x))
            .collect();
        v.push((Call::plain(code), vals));
    }
    v
}

fn bits_ops(mut n: usize) -> Vec<ROp> {
    let mut v = vec![];
    while n > 0 {
        let c = n.min(64);
        v.push(ROp::Bits(c as u8));
        n -= c;
    }
    v
}

fn run(ctx: &Ctx, env: &Env) -> Stats {
    let mut jobs: Vec<Job> = vec![];
    let strict: Vec<RBackend> = RBackend::STRICT.to_vec();
    let mut backends = strict.clone();
    backends.push(RBackend::InfOwned);
    for e in En::ALL {
        for r in RKind::ALL {
            for &backend in &backends {
                if ctx.quick() && matches!(backend, RBackend::SliceReadback) {
                    continue;
                }
                // codes against the cut
                jobs.push(Box::new(move |ctx: &Ctx| {
                    let cfg = RCfg::new(e, r, backend);
                    let w = r.word().bits();
                    let mut part = Part::new(ctx, format!("cut/codes/{}", cfg.name()), "code menu x values x every residue before the item x every cut", true);
                    let f = |c: &Case| check_case(c, env);
                    let step = if ctx.quick() && w >= 32 { 3 } else { 1 };
                    for (call, vals) in call_menu() {
                        for &v in &vals {
                            for res in (0..w).step_by(step).chain([w - 1]) {
                                let items = vec![
                                    Item::Raw { v: 0x5555_5555_5555_5555 & mask64(res.min(64)), n: res.min(64) as u8 },
                                    Item::Coded { code: call.code(), v },
                                    Item::Coded { code: call.code(), v: vals[0] },
                                ];
                                let img = Img::Items { items, tail: Pat::Zeros, tail_bits: 0, seed: 0 };
                                let built = img.build(e, w, None);
                                let words = built.model.len() / w;
                                let mut ops = bits_ops(res.min(64));
                                ops.push(ROp::Code(call));
                                ops.push(ROp::Code(call));
                                let ops = with_pos(ops);
                                for cut in 0..=words {
                                    part.check(&RCase { cfg, img: img.clone(), cut_words: Some(cut as u32), ops: ops.clone(), free: false }, &f);
                                }
                            }
                        }
                    }
                    part.finish()
                }));
                // primitives against the end
                jobs.push(Box::new(move |ctx: &Ctx| {
                    let cfg = RCfg::new(e, r, backend);
                    let w = r.word().bits();
                    let mut part = Part::new(ctx, format!("cut/prims/{}", cfg.name()), "every primitive x every residue against the end of 1..3-word streams", true);
                    let f = |c: &Case| check_case(c, env);
                    let step = if ctx.quick() && w >= 32 { 3 } else { 1 };
                    for words in 1..=3usize {
                        for pat in [Pat::Ones, Pat::Zeros, Pat::Random] {
                            let img = Img::Pattern { pat, bits: (words * w) as u32, seed: 9, zero_from: None, one_at: None };
                            for res in (0..=(words * w)).step_by(step) {
                                let mut menu: Vec<ROp> = vec![];
                                for n in 0..=64u8 {
                                    menu.push(ROp::Bits(n));
                                }
                                for n in 1..=r.peek_max() {
                                    menu.push(ROp::Peek(n as u8));
                                }
                                for n in [0usize, 1, w - 1, w, w + 1, 2 * w, 2 * w + 1, 3 * w, 3 * w + 1] {
                                    menu.push(ROp::Skip(n as u32));
                                }
                                menu.push(ROp::Unary);
                                for k in [0u16, 1, 2, 7, 8, 9, 16, 17] {
                                    menu.push(ROp::IoRead(k));
                                }
                                for nx in menu {
                                    let mut ops = bits_ops(res);
                                    ops.push(nx);
                                    ops.push(ROp::Bits(1));
                                    ops.push(ROp::Peek(1));
                                    part.check(&RCase { cfg, img: img.clone(), cut_words: None, ops: with_pos(ops), free: false }, &f);
                                }
                            }
                        }
                    }
                    part.finish()
                }));
            }
        }
    }
    let n_rand = ctx.t(15_000u64, 1_000_000);
    for j in 0..16 {
        jobs.push(Box::new(move |ctx: &Ctx| {
            let mut part = Part::new(ctx, format!("random/streams/{}", j), "proptest byte strings decoded into item streams; every cut 0..=words is executed", false);
            part.random(n_rand, 400, &|s: &mut Src| gen_case(s), &|c: &Case| check_all_cuts(c, env));
            part.finish()
        }));
    }
    run_jobs(ctx, jobs)
}

/// A generated case with `cut_words = None` stands for all its cuts.
pub fn check_all_cuts(c: &Case, env: &Env) -> CheckResult {
    if c.cut_words.is_some() {
        return check_case(c, env);
    }
    let w = c.cfg.r.word().bits();
    let words = c.img.build(c.cfg.e, w, None).model.len() / w;
    let mut out = Outcome::new();
    for cut in 0..=words {
        let mut cc = c.clone();
        cc.cut_words = Some(cut as u32);
        match check_case(&cc, env) {
            Ok(o) => {
                out.nontrivial |= o.nontrivial;
                for l in o.labels {
                    out.label(l);
                }
            }
            Err(mut f) => {
                f.msg = format!("(cut after {} words) {}", cut, f.msg);
                return Err(f);
            }
        }
    }
    Ok(out)
}

pub fn gen_case(s: &mut Src) -> Case {
    let mut backends = RBackend::STRICT.to_vec();
    backends.push(RBackend::InfBorrowed);
    let cfg = gen_rcfg(s, &backends);
    let n_items = s.range(1, 12);
    let items: Vec<Item> = (0..n_items).map(|_| gen_item(s)).collect();
    let mut ops = vec![];
    for it in &items {
        ops.extend(rop_for_item(s, it));
    }
    let img = Img::Items { items, tail: Pat::Zeros, tail_bits: 0, seed: 0 };
    RCase { cfg, img, cut_words: None, ops: with_pos(ops), free: false }
}

fn replay(v: &serde_json::Value, env: &Env) -> CheckResult {
    let c: Case = serde_json::from_value(v.clone()).map_err(|e| Failure::new("replay/parse", e.to_string()))?;
    run_guarded(&c, &|c: &Case| check_all_cuts(c, env))
}

fn from_bytes(data: &[u8], env: &Env) -> (serde_json::Value, CheckResult) {
    let c = gen_case(&mut Src::new(data));
    let r = run_guarded(&c, &|c| check_all_cuts(c, env));
    (serde_json::to_value(&c).unwrap_or(serde_json::Value::Null), r)
}
