#![no_main]
//! libFuzzer target: bytes -> (same decoder as the proptest part) -> same oracle.
use libfuzzer_sys::fuzz_target;
use std::sync::OnceLock;
use vcore::engine::{run_guarded, Src};

static ENV: OnceLock<props::Env> = OnceLock::new();

fuzz_target!(|data: &[u8]| {
    let env = ENV.get_or_init(props::fuzz_env);
    let case = props::c13::gen_case(&mut Src::new(data));
    if let Err(f) = run_guarded(&case, &|c| props::c13::check_case(c, env)) {
        // the panic hook is silent: print the verdict on stdout, then abort the way libFuzzer expects
        println!("FUZZ-VIOLATION target=fz_words signature={} {}", f.sig, f.msg);
        std::process::abort();
    }
});
